(* Facts about one destination's path list under Calculate (rm_src / ins / dest_update). *)
From Coq Require Import List ZArith Bool Lia Permutation.
From Verif Require Import Decision.Model Speaker.Model Speaker.Lemmas.
Import ListNotations.
Open Scope Z_scope.

Lemma opt_eqb_eq a b : opt_eqb a b = true <-> a = b.
Proof.
  destruct a as [x|], b as [y|]; simpl; try (split; [discriminate|discriminate]); try tauto.
  rewrite Z.eqb_eq. split; [intros ->; reflexivity|intros H; injection H; auto].
Qed.
Lemma opt_eqb_refl a : opt_eqb a a = true. Proof. now apply opt_eqb_eq. Qed.
Lemma opt_eqb_sym a b : opt_eqb a b = opt_eqb b a.
Proof.
  destruct (opt_eqb a b) eqn:E; symmetry.
  - apply opt_eqb_eq in E. subst. apply opt_eqb_refl.
  - destruct (opt_eqb b a) eqn:E2; [|reflexivity]. apply opt_eqb_eq in E2. subst. now rewrite opt_eqb_refl in E.
Qed.

(* the route a given source address contributes to a destination *)
Definition find_addr (s : option Z) (l : list rpath) : option attrs :=
  option_map rp_attrs (find (fun y => opt_eqb (src_addr y) s) l).

Lemma find_addr_cons s y r :
  find_addr s (y :: r) = if opt_eqb (src_addr y) s then Some (rp_attrs y) else find_addr s r.
Proof. unfold find_addr. cbn [find]. destruct (opt_eqb (src_addr y) s); reflexivity. Qed.

Lemma find_addr_none s l : ~ In s (map src_addr l) -> find_addr s l = None.
Proof.
  induction l as [|y r IH]; intros H; [reflexivity|]. rewrite find_addr_cons.
  destruct (opt_eqb (src_addr y) s) eqn:E.
  - apply opt_eqb_eq in E. exfalso. apply H. left. exact E.
  - apply IH. intros Hin. apply H. right. exact Hin.
Qed.

Lemma find_addr_in s a l : find_addr s l = Some a -> exists y, In y l /\ src_addr y = s /\ rp_attrs y = a.
Proof.
  induction l as [|y r IH]; [discriminate|]. rewrite find_addr_cons.
  destruct (opt_eqb (src_addr y) s) eqn:E.
  - intros H. injection H as <-. apply opt_eqb_eq in E. exists y. simpl. auto.
  - intros H. destruct (IH H) as (z & Hz & Hs & Ha). exists z. simpl. auto.
Qed.

Lemma in_find_addr y l : NoDup (map src_addr l) -> In y l -> find_addr (src_addr y) l = Some (rp_attrs y).
Proof.
  induction l as [|z r IH]; intros Hn Hin; [destruct Hin|]. inversion Hn as [|? ? Hz Hr]; subst.
  rewrite find_addr_cons. destruct Hin as [->|Hin]; [now rewrite opt_eqb_refl|].
  destruct (opt_eqb (src_addr z) (src_addr y)) eqn:E; [|now apply IH].
  apply opt_eqb_eq in E. exfalso. apply Hz. rewrite E. now apply in_map.
Qed.

Lemma find_addr_app s a b :
  find_addr s (a ++ b) = match find_addr s a with Some v => Some v | None => find_addr s b end.
Proof.
  induction a as [|y r IH]; [reflexivity|]. cbn [app]. rewrite !find_addr_cons.
  destruct (opt_eqb (src_addr y) s); [reflexivity|exact IH].
Qed.

(* ---- implicit / explicit withdraw *)
Lemma in_rm_src x y l : In y (rm_src x l) -> In y l.
Proof.
  induction l as [|z r IH]; simpl; [auto|]. destruct (same_src x z); [auto|]. intros [H|H]; auto.
Qed.

Lemma nodup_rm_src x l : NoDup (map src_addr l) -> NoDup (map src_addr (rm_src x l)).
Proof.
  induction l as [|z r IH]; simpl; intros H; [constructor|]. inversion H as [|? ? Hz Hr]; subst.
  destruct (same_src x z); [exact Hr|]. simpl. constructor; [|auto].
  intros Hin. apply Hz. apply in_map_iff in Hin. destruct Hin as (y & Ey & Hy). apply in_map_iff. exists y.
  split; [exact Ey|]. eapply in_rm_src; eauto.
Qed.

Lemma rm_src_notin x l : NoDup (map src_addr l) -> ~ In (src_addr x) (map src_addr (rm_src x l)).
Proof.
  induction l as [|z r IH]; simpl; intros H; [auto|]. inversion H as [|? ? Hz Hr]; subst.
  unfold same_src. destruct (opt_eqb (src_addr x) (src_addr z)) eqn:E.
  - apply opt_eqb_eq in E. rewrite E. exact Hz.
  - simpl. intros [H1|H1]; [rewrite H1, opt_eqb_refl in E; discriminate|]. exact (IH Hr H1).
Qed.

Lemma find_rm_src s x l : NoDup (map src_addr l) ->
  find_addr s (rm_src x l) = if opt_eqb s (src_addr x) then None else find_addr s l.
Proof.
  induction l as [|z r IH]; intros H.
  - simpl. destruct (opt_eqb s (src_addr x)); reflexivity.
  - inversion H as [|? ? Hz Hr]; subst. cbn [rm_src]. unfold same_src.
    destruct (opt_eqb (src_addr x) (src_addr z)) eqn:E.
    + apply opt_eqb_eq in E. rewrite find_addr_cons. rewrite <- E.
      rewrite (opt_eqb_sym (src_addr x) s). destruct (opt_eqb s (src_addr x)) eqn:E2; [|reflexivity].
      apply opt_eqb_eq in E2. subst s. apply find_addr_none. now rewrite E.
    + rewrite !find_addr_cons. destruct (opt_eqb (src_addr z) s) eqn:E2.
      * apply opt_eqb_eq in E2. subst s. rewrite (opt_eqb_sym (src_addr z)), E. reflexivity.
      * now apply IH.
Qed.

(* ---- insertion at any position *)
Lemma mid_perm {A} (x : A) n l : Permutation (x :: l) (firstn n l ++ x :: skipn n l).
Proof. rewrite <- (firstn_skipn n l) at 1. apply Permutation_middle. Qed.

Lemma ins_perm g l x : Permutation (x :: l) (ins g l x).
Proof. unfold ins. apply mid_perm. Qed.

Lemma in_ins g l x y : In y (ins g l x) -> y = x \/ In y l.
Proof.
  intros H. apply (Permutation_in _ (Permutation_sym (ins_perm g l x))) in H. destruct H; auto.
Qed.

Lemma nodup_ins g l x :
  NoDup (map src_addr l) -> ~ In (src_addr x) (map src_addr l) -> NoDup (map src_addr (ins g l x)).
Proof.
  intros H1 H2. eapply Permutation_NoDup; [apply Permutation_map; apply ins_perm|].
  simpl. constructor; assumption.
Qed.

Lemma find_ins s g l x : ~ In (src_addr x) (map src_addr l) ->
  find_addr s (ins g l x) = if opt_eqb s (src_addr x) then Some (rp_attrs x) else find_addr s l.
Proof.
  intros Hn. unfold ins. set (n := sort_search _ _). rewrite find_addr_app, find_addr_cons.
  rewrite (opt_eqb_sym (src_addr x) s). destruct (opt_eqb s (src_addr x)) eqn:E.
  - apply opt_eqb_eq in E. subst s.
    rewrite find_addr_none; [reflexivity|].
    intros Hin. apply Hn. apply in_map_iff in Hin. destruct Hin as (y & Ey & Hy). apply in_map_iff. exists y.
    split; [exact Ey|]. rewrite <- (firstn_skipn n l). apply in_or_app. auto.
  - rewrite <- find_addr_app. now rewrite firstn_skipn.
Qed.

(* ---- Calculate *)
Lemma du_nodup g l w x : NoDup (map src_addr l) -> NoDup (map src_addr (dest_update g l w x)).
Proof.
  intros H. unfold dest_update. destruct w; [now apply nodup_rm_src|].
  apply nodup_ins; [now apply nodup_rm_src|now apply rm_src_notin].
Qed.

Lemma du_in g l w x y : In y (dest_update g l w x) -> (w = false /\ y = x) \/ In y l.
Proof.
  unfold dest_update. destruct w; intros H.
  - right. eapply in_rm_src; eauto.
  - apply in_ins in H. destruct H as [->|H]; [auto|]. right. eapply in_rm_src; eauto.
Qed.

Lemma du_find s g l w x : NoDup (map src_addr l) ->
  find_addr s (dest_update g l w x) =
    if opt_eqb s (src_addr x) then (if w then None else Some (rp_attrs x)) else find_addr s l.
Proof.
  intros H. unfold dest_update. destruct w.
  - now apply find_rm_src.
  - rewrite find_ins by now apply rm_src_notin. rewrite find_rm_src by assumption.
    destruct (opt_eqb s (src_addr x)); reflexivity.
Qed.
