(* Association-list facts and the one-peer fan-out lemma used by the C01/C02/C09 proofs. *)
From Coq Require Import List ZArith Bool Lia Permutation.
From Verif Require Import Decision.Model Speaker.Model.
Import ListNotations.
Open Scope Z_scope.

Section Assoc.
  Context {V : Type}.
  Implicit Types (l : list (Z * V)) (k : Z) (v : V).

  Lemma aget_aset_same k v l : aget k (aset k v l) = Some v.
  Proof.
    induction l as [|[k' v'] r IH]; simpl.
    - now rewrite Z.eqb_refl.
    - destruct (Z.eqb_spec k' k) as [E|E]; simpl.
      + now rewrite Z.eqb_refl.
      + destruct (Z.eqb_spec k' k); [contradiction|exact IH].
  Qed.

  Lemma aget_aset_other k k' v l : k <> k' -> aget k' (aset k v l) = aget k' l.
  Proof.
    intros N. induction l as [|[k2 v2] r IH]; simpl.
    - destruct (Z.eqb_spec k k'); [contradiction|reflexivity].
    - destruct (Z.eqb_spec k2 k) as [E|E]; simpl.
      + subst k2. destruct (Z.eqb_spec k k'); [contradiction|reflexivity].
      + destruct (Z.eqb_spec k2 k'); [reflexivity|exact IH].
  Qed.

  Lemma aget_adel_same k l : aget k (adel k l) = None.
  Proof.
    induction l as [|[k' v'] r IH]; simpl; [reflexivity|].
    destruct (Z.eqb_spec k' k) as [E|E]; simpl; [exact IH|].
    destruct (Z.eqb_spec k' k); [contradiction|exact IH].
  Qed.

  Lemma aget_adel_other k k' l : k <> k' -> aget k' (adel k l) = aget k' l.
  Proof.
    intros N. induction l as [|[k2 v2] r IH]; simpl; [reflexivity|].
    destruct (Z.eqb_spec k2 k) as [E|E]; simpl.
    - subst k2. destruct (Z.eqb_spec k k'); [contradiction|exact IH].
    - destruct (Z.eqb_spec k2 k'); [reflexivity|exact IH].
  Qed.

  Lemma in_aset k v l x : In x (aset k v l) -> x = (k, v) \/ In x l.
  Proof.
    induction l as [|[k' v'] r IH]; simpl.
    - intros [H|[]]; auto.
    - destruct (Z.eqb_spec k' k); simpl; intros [H|H]; auto.
      destruct (IH H); auto.
  Qed.

  Lemma in_adel k l x : In x (adel k l) -> In x l.
  Proof.
    induction l as [|[k' v'] r IH]; simpl; [auto|].
    destruct (Z.eqb_spec k' k); simpl; [auto|]. intros [H|H]; auto.
  Qed.

  Lemma in_adel_key k l x : In x (adel k l) -> fst x <> k.
  Proof.
    induction l as [|[k' v'] r IH]; simpl; [intros []|].
    destruct (Z.eqb_spec k' k); simpl; [auto|]. intros [H|H]; [subst x; exact n|auto].
  Qed.

  Lemma keys_aset k v l : forall x, In x (map fst (aset k v l)) -> x = k \/ In x (map fst l).
  Proof.
    induction l as [|[k' v'] r IH]; simpl; intros x.
    - intros [H|[]]; auto.
    - destruct (Z.eqb_spec k' k); simpl; intros [H|H]; auto.
      destruct (IH _ H); auto.
  Qed.

  Lemma nodup_keys_aset k v l : NoDup (map fst l) -> NoDup (map fst (aset k v l)).
  Proof.
    induction l as [|[k' v'] r IH]; simpl; intros H.
    - constructor; [intros []|constructor].
    - inversion H as [|? ? Hn Hr]; subst.
      destruct (Z.eqb_spec k' k) as [E|E]; simpl.
      + subst k'. constructor; assumption.
      + constructor; [|apply IH; assumption].
        intros Hin. destruct (keys_aset _ _ _ _ Hin) as [->|H']; [congruence|contradiction].
  Qed.

  Lemma nodup_keys_adel k l : NoDup (map fst l) -> NoDup (map fst (adel k l)).
  Proof.
    induction l as [|[k' v'] r IH]; simpl; intros H; [constructor|].
    inversion H as [|? ? Hn Hr]; subst.
    destruct (Z.eqb_spec k' k); simpl; [auto|].
    constructor; [|auto]. intros Hin. apply Hn.
    apply in_map_iff in Hin. destruct Hin as (x & Hx & Hi). apply in_map_iff. exists x. split; [exact Hx|]. eapply in_adel; eauto.
  Qed.

  Lemma aget_in k v l : aget k l = Some v -> In (k, v) l.
  Proof.
    induction l as [|[k' v'] r IH]; simpl; [discriminate|].
    destruct (Z.eqb_spec k' k); [intros H; injection H as <-; subst; auto|auto].
  Qed.

  Lemma in_aget k v l : NoDup (map fst l) -> In (k, v) l -> aget k l = Some v.
  Proof.
    induction l as [|[k' v'] r IH]; simpl; intros H; [intros []|].
    inversion H as [|? ? Hn Hr]; subst. intros [E|Hin].
    - injection E as -> ->. now rewrite Z.eqb_refl.
    - destruct (Z.eqb_spec k' k) as [E|E]; [|auto].
      subst k'. exfalso. apply Hn. apply in_map_iff. exists (k, v). auto.
  Qed.

  Lemma aget_none_notin k l : aget k l = None -> ~ In k (map fst l).
  Proof.
    induction l as [|[k' v'] r IH]; simpl; [auto|].
    destruct (Z.eqb_spec k' k); [discriminate|]. intros H [E|Hin]; [contradiction|]. exact (IH H Hin).
  Qed.
End Assoc.

(* ---- target depends on the source and the attributes only (not on the receive time) *)
Lemma target_ext g q a b :
  rp_src a = rp_src b -> rp_attrs a = rp_attrs b -> target g q (Some a) = target g q (Some b).
Proof.
  destruct a as [sa aa ta], b as [sb ab tb]. simpl. intros -> ->. reflexivity.
Qed.

Lemma rp_equal_true a b : rp_equal a b = true -> rp_src a = rp_src b /\ rp_attrs a = rp_attrs b.
Proof.
  unfold rp_equal. destruct (src_eq_dec (rp_src a) (rp_src b)); [|discriminate].
  destruct (attrs_eq_dec (rp_attrs a) (rp_attrs b)); [auto|discriminate].
Qed.

(* ---- filterpath against the reference filter0 *)
Lemma filterpath_announce g q x old :
  filter0 g q x = true -> filterpath g q false x old = Some (false, x).
Proof.
  unfold filter0, filterpath. destruct (ibgp_stage g q x); [|discriminate].
  intros H. apply andb_true_iff in H. destruct H as [H1 H2].
  apply negb_true_iff in H1, H2. now rewrite H1, H2.
Qed.

(* a new best that cannot be sent: either the old best is withdrawn, or nothing is said and the old best was not
   sendable either *)
Lemma filterpath_blocked g q x old :
  filter0 g q x = false ->
  match filterpath g q false x old with
  | Some (w, _) => w = true
  | None => match old with Some o => filter0 g q o = false | None => True end
  end.
Proof.
  unfold filter0 at 1. unfold filterpath. destruct (ibgp_stage g q x) eqn:Es.
  - intros H. destruct (from_me q x) eqn:Ef.
    + destruct old as [o|]; [|exact I]. simpl. destruct (from_me q o) eqn:Eo; simpl; [|reflexivity].
      unfold filter0. destruct (ibgp_stage g q o); [|reflexivity]. now rewrite Eo.
    + destruct (as_loop q x) eqn:Ea; [|simpl in H; discriminate].
      destruct old as [o|]; [reflexivity|exact I].
  - intros _. destruct old as [o|]; [|exact I]. simpl. destruct (filter0 g q o) eqn:Eo; [reflexivity|reflexivity].
Qed.

(* a withdrawal (the destination lost its last path): either passed on, or the old best had never been sendable *)
Lemma filterpath_withdraw g q o :
  match filterpath g q true o (Some o) with
  | Some (w, _) => w = true
  | None => filter0 g q o = false
  end.
Proof.
  unfold filterpath, filter0. destruct (ibgp_stage g q o); [|reflexivity].
  destruct (from_me q o); [reflexivity|]. destruct (as_loop q o); reflexivity.
Qed.

(* ---- one peer, one destination: after the fan-out the peer holds the target of the new best *)
Lemma fan1_spec g pfx oldl newl p :
  (p_up p = true -> aget pfx (p_view p) = target g (p_conf p) (hd_error oldl)) ->
  let p' := fan1 g pfx (changes oldl newl) p in
  p_conf p' = p_conf p /\ p_up p' = p_up p /\ p_adjin p' = p_adjin p /\
  (p_up p = true -> aget pfx (p_view p') = target g (p_conf p) (hd_error newl)) /\
  (forall k, k <> pfx -> aget k (p_view p') = aget k (p_view p)).
Proof.
  intros Hold. unfold fan1. destruct (p_up p) eqn:Eu; [|cbn zeta; rewrite Eu; repeat split; intros; congruence].
  specialize (Hold eq_refl).
  unfold changes. destruct (hd_error newl) as [b|] eqn:Eb; destruct (hd_error oldl) as [o|] eqn:Eo; cbn [fst snd]; rewrite ?Eo in Hold; unfold target in *.
  - destruct (rp_equal b o) eqn:Ee; cbn [fst snd].
    + apply rp_equal_true in Ee. destruct Ee as [E1 E2].
      repeat split; auto. intros _. rewrite Hold. pose proof (target_ext g (p_conf p) b o E1 E2) as T. unfold target in T. now rewrite T.
    + destruct (filter0 g (p_conf p) b) eqn:Ef.
      * rewrite (filterpath_announce _ _ _ _ Ef). cbn. repeat split; auto.
        -- intros _. rewrite aget_aset_same. rewrite ?Ef; reflexivity.
        -- intros k Hk. apply aget_aset_other; congruence.
      * pose proof (filterpath_blocked g (p_conf p) b (Some o) Ef) as Hb.
        destruct (filterpath g (p_conf p) false b (Some o)) as [[w y]|].
        -- subst w. cbn. repeat split; auto.
           ++ intros _. rewrite aget_adel_same. rewrite ?Ef; reflexivity.
           ++ intros k Hk. apply aget_adel_other; congruence.
        -- repeat split; auto; try (intros _; rewrite Hold; rewrite ?Hb, ?Ef; reflexivity).
  - destruct (filter0 g (p_conf p) b) eqn:Ef.
    + rewrite (filterpath_announce _ _ _ _ Ef). cbn. repeat split; auto.
      * intros _. rewrite aget_aset_same. rewrite ?Ef; reflexivity.
      * intros k Hk. apply aget_aset_other; congruence.
    + pose proof (filterpath_blocked g (p_conf p) b None Ef) as Hb.
      destruct (filterpath g (p_conf p) false b None) as [[w y]|].
      * subst w. cbn. repeat split; auto.
        -- intros _. rewrite aget_adel_same. rewrite ?Ef; reflexivity.
        -- intros k Hk. apply aget_adel_other; congruence.
      * repeat split; auto; try (intros _; rewrite Hold; rewrite ?Ef; reflexivity).
  - pose proof (filterpath_withdraw g (p_conf p) o) as Hw.
    destruct (filterpath g (p_conf p) true o (Some o)) as [[w y]|].
    + subst w. cbn. repeat split; auto.
      * intros _. now rewrite aget_adel_same.
      * intros k Hk. apply aget_adel_other; congruence.
    + repeat split; auto; try (intros _; rewrite Hold; rewrite ?Hw; reflexivity).
  - repeat split; auto.
Qed.
