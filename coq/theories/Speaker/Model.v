(* C01 / C02 / C09 -- executable model of the speaker's routing core, one event at a time:
     pkg/server/peer.go      handleUpdate (Adj-RIB-In update, AS-loop / ORIGINATOR_ID / CLUSTER_LIST rejection),
                             filterPathFromSourcePeer
     pkg/server/server.go    propagateUpdate -> rib.Update -> propagateUpdateToNeighbors -> processOutgoingPaths,
                             filterpath (package level and method), dropAdjRIBIn, the Established table dump
     internal/pkg/table      destination.go Calculate / GetChanges (through Decision.Model's comparator chain),
                             path.go UpdatePathAttrs (eBGP / iBGP / route-reflector client), Path.Equal
   Scope of the model: IPv4 unicast, no ADD-PATH, no policy, no route server, no confederation, AS_PATH a single
   AS_SEQUENCE, router-id of a peer = its address, cluster-id = the local router-id.
   What a peer "holds" (p_view) is the accumulation of the UPDATEs written to its session.
   Definitions only. *)
From Coq Require Import List ZArith Bool.
From Verif Require Import Decision.Model.
Import ListNotations.
Open Scope Z_scope.

Inductive kind := Ebgp | Ibgp | RRc.
Record attrs := mkA { a_origin : Z; a_path : list Z; a_nh : Z; a_med : option Z; a_lp : option Z;
                      a_comms : list Z; a_orig : option Z; a_cl : list Z }.
Record pconf := mkP { pc_addr : Z; pc_as : Z; pc_kind : kind }.
Record gconf := mkG { g_as : Z; g_id : Z; g_addr : Z }.
(* a path in the Loc-RIB: source (None = locally injected), attributes as received, receive time (seconds) *)
Record rpath := mkR { rp_src : option pconf; rp_attrs : attrs; rp_ts : Z }.

(* ---- association lists keyed by Z: first match wins, set replaces in place or appends, del removes all *)
Fixpoint aget {V} (k : Z) (l : list (Z * V)) : option V :=
  match l with [] => None | (k', v) :: r => if k' =? k then Some v else aget k r end.
Fixpoint aset {V} (k : Z) (v : V) (l : list (Z * V)) : list (Z * V) :=
  match l with [] => [(k, v)] | (k', v') :: r => if k' =? k then (k, v) :: r else (k', v') :: aset k v r end.
Fixpoint adel {V} (k : Z) (l : list (Z * V)) : list (Z * V) :=
  match l with [] => [] | (k', v') :: r => if k' =? k then adel k r else (k', v') :: adel k r end.

(* ---- decidable equalities (Path.Equal compares source and attributes, not the timestamp) *)
Definition kind_eq_dec (a b : kind) : {a = b} + {a <> b}. Proof. decide equality. Defined.
Definition optz_eq_dec (a b : option Z) : {a = b} + {a <> b}. Proof. decide equality; apply Z.eq_dec. Defined.
Definition attrs_eq_dec (a b : attrs) : {a = b} + {a <> b}.
Proof. decide equality; try apply optz_eq_dec; try apply Z.eq_dec; apply (list_eq_dec Z.eq_dec). Defined.
Definition pconf_eq_dec (a b : pconf) : {a = b} + {a <> b}.
Proof. decide equality; try apply kind_eq_dec; apply Z.eq_dec. Defined.
Definition src_eq_dec (a b : option pconf) : {a = b} + {a <> b}. Proof. decide equality; apply pconf_eq_dec. Defined.

Definition rp_equal (a b : rpath) : bool :=
  if src_eq_dec (rp_src a) (rp_src b) then if attrs_eq_dec (rp_attrs a) (rp_attrs b) then true else false else false.

(* the address a path came from; None for local routes *)
Definition src_addr (x : rpath) : option Z := option_map pc_addr (rp_src x).
Definition same_src (a b : rpath) : bool := opt_eqb (src_addr a) (src_addr b).

(* ---- best-path ordering: the facts Decision.Model's comparators read *)
Definition cand_of (g : gconf) (r : rpath) : cand :=
  let a := rp_attrs r in
  {| c_tag := 0;
     c_as := match rp_src r with Some p => pc_as p | None => 0 end;
     c_localas := match rp_src r with Some _ => g_as g | None => 0 end;
     c_id := match rp_src r with Some p => pc_addr p | None => 0 end;
     c_localid := match rp_src r with Some _ => g_id g | None => 0 end;
     c_addr := src_addr r;
     c_confed := false; c_pid := 0; c_llgr := false; c_nhinv := false;
     c_lp := match a_lp a with Some v => v | None => 100 end;
     c_segs := match a_path a with [] => [] | l => [(2, l)] end;
     c_origin := a_origin a;
     c_med := match a_med a with Some v => v | None => 0 end;
     c_ts := rp_ts r |}.
Definition opts0 : opts := {| o_always_med := false; o_ignore_aslen := false; o_ext_rid := false |}.

(* destination.Calculate: implicit withdraw + sorted insertion / explicit withdraw *)
Fixpoint rm_src (x : rpath) (l : list rpath) : list rpath :=
  match l with [] => [] | y :: r => if same_src x y then r else y :: rm_src x r end.
Definition ins (g : gconf) (l : list rpath) (x : rpath) : list rpath :=
  let idx := sort_search (length l) (fun i => ins_pred opts0 (cand_of g x) (cand_of g (nth i l x))) in
  firstn idx l ++ x :: skipn idx l.
Definition dest_update (g : gconf) (l : list rpath) (w : bool) (x : rpath) : list rpath :=
  if w then rm_src x l else ins g (rm_src x l) x.

(* Update.GetChanges for the global table, nexthops always reachable:
   (what to tell the neighbours: (is-withdraw, path), the old best) *)
Definition changes (oldl newl : list rpath) : option (bool * rpath) * option rpath :=
  let old := hd_error oldl in
  match hd_error newl with
  | Some b => match old with
              | Some o => if rp_equal b o then (None, old) else (Some (false, b), old)
              | None => (Some (false, b), old)
              end
  | None => match old with Some o => (Some (true, o), old) | None => (None, None) end
  end.

(* ---- inbound checks of handleUpdate *)
Definition is_ibgp_peer (g : gconf) (q : pconf) : bool := pc_as q =? g_as g.
Definition is_rrc (q : pconf) : bool := match pc_kind q with RRc => true | _ => false end.
Definition zmem (x : Z) (l : list Z) : bool := existsb (Z.eqb x) l.
Definition rejected (g : gconf) (q : pconf) (a : attrs) : bool :=
  zmem (g_as g) (a_path a)
  || (is_ibgp_peer g q && (opt_eqb (a_orig a) (Some (g_id g)) || zmem (g_id g) (a_cl a))).

(* ---- outbound: filterpath *)
Inductive verdict := Pass | Ignore.
Definition ibgp_stage (g : gconf) (q : pconf) (x : rpath) : verdict :=
  if is_ibgp_peer g q then
    match rp_src x with
    | None => Pass
    | Some s =>
        if is_rrc q then (if zmem (g_id g) (a_cl (rp_attrs x)) then Ignore else Pass)
        else if negb (pc_as s =? pc_as q) || is_rrc s then Pass else Ignore
    end
  else Pass.
Definition from_me (q : pconf) (x : rpath) : bool := opt_eqb (src_addr x) (Some (pc_addr q)).
Definition as_loop (q : pconf) (x : rpath) : bool := zmem (pc_as q) (a_path (rp_attrs x)).
(* filterpath(peer, x, nil) != nil for an announcement x *)
Definition filter0 (g : gconf) (q : pconf) (x : rpath) : bool :=
  match ibgp_stage g q x with
  | Pass => negb (from_me q x) && negb (as_loop q x)
  | Ignore => false
  end.
Definition filterpath (g : gconf) (q : pconf) (w : bool) (x : rpath) (old : option rpath) : option (bool * rpath) :=
  match ibgp_stage g q x with
  | Ignore => match old with
              | Some o => if negb w && filter0 g q o then Some (true, o) else None
              | None => None
              end
  | Pass =>
      if from_me q x then
        match old with
        | Some o => if negb w && negb (from_me q o) then Some (true, o) else None
        | None => None
        end
      else if as_loop q x then
        match old with Some o => if negb w then Some (true, o) else None | None => None end
      else Some (w, x)
  end.

(* ---- outbound: UpdatePathAttrs + postFilterpath (LOCAL_PREF removed towards eBGP) *)
Definition is_local (x : rpath) : bool := match rp_src x with None => true | Some _ => false end.
Definition export (g : gconf) (q : pconf) (x : rpath) : attrs :=
  let a := rp_attrs x in
  match pc_kind q with
  | Ebgp =>
      mkA (a_origin a) (g_as g :: a_path a)
          (if is_local x && negb (a_nh a =? 0) then a_nh a else g_addr g)
          (if is_local x then a_med a else None) None (a_comms a) None []
  | Ibgp =>
      mkA (a_origin a) (a_path a) (if is_local x && (a_nh a =? 0) then g_addr g else a_nh a)
          (a_med a) (Some (match a_lp a with Some v => v | None => 100 end)) (a_comms a) None []
  | RRc =>
      mkA (a_origin a) (a_path a) (if is_local x && (a_nh a =? 0) then g_addr g else a_nh a)
          (a_med a) (Some (match a_lp a with Some v => v | None => 100 end)) (a_comms a)
          (Some (match a_orig a with
                 | Some o => o
                 | None => match rp_src x with Some s => pc_addr s | None => g_id g end
                 end))
          (g_id g :: a_cl a)
  end.

(* ---- state *)
Record peer := mkPeer { p_conf : pconf; p_up : bool;
                        p_adjin : list (Z * (attrs * bool));     (* prefix -> (route, rejected) *)
                        p_view : list (Z * attrs) }.             (* what the peer holds from us *)
Record state := mkS { s_peers : list (Z * peer); s_rib : list (Z * list rpath); s_now : Z }.

Definition rib_get (st : state) (pfx : Z) : list rpath :=
  match aget pfx (s_rib st) with Some l => l | None => [] end.

(* one peer's share of propagateUpdateToNeighbors / processOutgoingPaths for one destination *)
Definition fan1 (g : gconf) (pfx : Z) (ch : option (bool * rpath) * option rpath) (p : peer) : peer :=
  if p_up p then
    match fst ch with
    | None => p
    | Some (w, x) =>
        match filterpath g (p_conf p) w x (snd ch) with
        | None => p
        | Some (true, _) => mkPeer (p_conf p) (p_up p) (p_adjin p) (adel pfx (p_view p))
        | Some (false, y) => mkPeer (p_conf p) (p_up p) (p_adjin p) (aset pfx (export g (p_conf p) y) (p_view p))
        end
    end
  else p.

(* propagateUpdate for one path: table update, then fan-out of the (best, old) pair *)
Definition rib_apply (g : gconf) (pfx : Z) (w : bool) (x : rpath) (st : state) : state :=
  let oldl := rib_get st pfx in
  let newl := dest_update g oldl w x in
  let ch := changes oldl newl in
  mkS (map (fun ip => (fst ip, fan1 g pfx ch (snd ip))) (s_peers st)) (aset pfx newl (s_rib st)) (s_now st).

Definition set_peer (i : Z) (p : peer) (st : state) : state := mkS (aset i p (s_peers st)) (s_rib st) (s_now st).

(* a withdrawal received from (or generated for) peer i *)
Definition withdraw_from (g : gconf) (i : Z) (pfx : Z) (st : state) : state :=
  match aget i (s_peers st) with
  | Some p =>
      let st1 := set_peer i (mkPeer (p_conf p) (p_up p) (adel pfx (p_adjin p)) (p_view p)) st in
      rib_apply g pfx true (mkR (Some (p_conf p)) (mkA 0 [] 0 None None [] None []) (s_now st)) st1
  | None => st
  end.

(* the table dump on Established: the best path of every destination through filterpath(.., nil) *)
Fixpoint dump (g : gconf) (q : pconf) (rib : list (Z * list rpath)) : list (Z * attrs) :=
  match rib with
  | [] => []
  | (k, l) :: r =>
      match l with
      | b :: _ => if filter0 g q b then (k, export g q b) :: dump g q r else dump g q r
      | [] => dump g q r
      end
  end.

Inductive event :=
| EUp (i : Z) | EDown (i : Z) | EDel (i : Z)
| EAnn (i pfx : Z) (a : attrs) | EWd (i pfx : Z)
| EApiAdd (pfx : Z) (a : attrs) | EApiDel (pfx : Z)
| ESleep (n : Z).

Definition local_path (a : attrs) : rpath := mkR None a 0.

(* session loss: every Adj-RIB-In entry becomes a withdrawal, then the peer is marked down *)
Definition go_down (g : gconf) (i : Z) (st : state) : state :=
  match aget i (s_peers st) with
  | Some p =>
      if p_up p then
        let st1 := fold_left (fun s k => withdraw_from g i k s) (map fst (p_adjin p)) st in
        match aget i (s_peers st1) with
        | Some p1 => set_peer i (mkPeer (p_conf p1) false [] []) st1
        | None => st1
        end
      else st
  | None => st
  end.

(* AdjRib.Update: a route re-announced with the same attributes keeps the receive time of the one it replaces
   (old.Equal(path) -> path.setTimestamp(old.GetTimestamp())); the time is read from the Loc-RIB entry of that source
   (a rejected route has none, and its time is never compared) *)
Definition ann_ts (st : state) (p : peer) (pfx : Z) (a : attrs) : Z :=
  match aget pfx (p_adjin p) with
  | Some (a0, _) =>
      if attrs_eq_dec a0 a then
        match find (fun x => same_src x (mkR (Some (p_conf p)) a 0)) (rib_get st pfx) with
        | Some x => rp_ts x
        | None => s_now st
        end
      else s_now st
  | None => s_now st
  end.

Definition step (g : gconf) (st : state) (e : event) : state :=
  match e with
  | EUp i =>
      match aget i (s_peers st) with
      | Some p => if p_up p then st
                  else set_peer i (mkPeer (p_conf p) true [] (dump g (p_conf p) (s_rib st))) st
      | None => st
      end
  | EDown i => go_down g i st
  | EDel i => let st1 := go_down g i st in mkS (adel i (s_peers st1)) (s_rib st1) (s_now st1)
  | EAnn i pfx a =>
      match aget i (s_peers st) with
      | Some p =>
          if p_up p then
            let rej := rejected g (p_conf p) a in
            let st1 := set_peer i (mkPeer (p_conf p) (p_up p) (aset pfx (a, rej) (p_adjin p)) (p_view p)) st in
            rib_apply g pfx rej (mkR (Some (p_conf p)) a (ann_ts st p pfx a)) st1
          else st
      | None => st
      end
  | EWd i pfx =>
      match aget i (s_peers st) with
      | Some p => if p_up p then withdraw_from g i pfx st else st
      | None => st
      end
  | EApiAdd pfx a => rib_apply g pfx false (local_path a) st
  | EApiDel pfx => rib_apply g pfx true (local_path (mkA 0 [] 0 None None [] None [])) st
  | ESleep n => mkS (s_peers st) (s_rib st) (s_now st + n)
  end.

Definition init (peers : list (Z * pconf)) : state :=
  mkS (map (fun ic => (fst ic, mkPeer (snd ic) false [] [])) peers) [] 0.
Definition run (g : gconf) (peers : list (Z * pconf)) (h : list event) : state := fold_left (step g) h (init peers).

(* ---- what a peer should hold for a destination whose best path is b *)
Definition target (g : gconf) (q : pconf) (b : option rpath) : option attrs :=
  match b with Some x => if filter0 g q x then Some (export g q x) else None | None => None end.
