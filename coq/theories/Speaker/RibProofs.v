(* C02: the Loc-RIB holds, per destination, exactly one path per source: for every established peer the route its
   Adj-RIB-In holds for the destination if that route passed the loop checks, nothing for any other peer, and the
   locally injected route.  Concrete invariant Jc; the link to the history is in RibSpec.v. *)
From Coq Require Import List ZArith Bool Lia Permutation.
From Verif Require Import Decision.Model Speaker.Model Speaker.Lemmas Speaker.RibLemmas Speaker.ViewProofs.
Import ListNotations.
Open Scope Z_scope.

Definition accepted (e : option (attrs * bool)) : option attrs :=
  match e with Some (a, false) => Some a | _ => None end.
Definition paddr (p : peer) : Z := pc_addr (p_conf p).
Definition pmap (f : peer -> peer) (l : list (Z * peer)) : list (Z * peer) := map (fun ip => (fst ip, f (snd ip))) l.

Record Jc (st : state) : Prop := {
  jc_keys : NoDup (map fst (s_peers st));
  jc_addrs : NoDup (map (fun ip => paddr (snd ip)) (s_peers st));
  jc_nodup : forall pfx, NoDup (map src_addr (rib_get st pfx));
  jc_peer : forall i p, aget i (s_peers st) = Some p -> forall pfx,
      find_addr (Some (paddr p)) (rib_get st pfx) = if p_up p then accepted (aget pfx (p_adjin p)) else None;
  jc_src : forall pfx y, In y (rib_get st pfx) ->
      match rp_src y with None => True | Some c => exists i p, aget i (s_peers st) = Some p /\ p_conf p = c end }.

(* ---- peer list helpers *)
Lemma aget_pmap f j l : aget j (pmap f l) = option_map f (aget j l).
Proof.
  induction l as [|[k v] r IH]; [reflexivity|]. cbn [pmap map aget fst snd].
  destruct (k =? j); [reflexivity|exact IH].
Qed.
Lemma keys_pmap f l : map fst (pmap f l) = map fst l.
Proof. unfold pmap. rewrite map_map. reflexivity. Qed.
Lemma addrs_pmap f l : (forall p, paddr (f p) = paddr p) ->
  map (fun ip => paddr (snd ip)) (pmap f l) = map (fun ip => paddr (snd ip)) l.
Proof. intros H. unfold pmap. rewrite map_map. apply map_ext. intros [k v]. cbn. apply H. Qed.

Lemma map_aset_same {B} (h : Z * peer -> B) i p p' l :
  aget i l = Some p -> h (i, p') = h (i, p) -> map h (aset i p' l) = map h l.
Proof.
  induction l as [|[k v] r IH]; [discriminate|]. cbn [aget aset].
  destruct (Z.eqb_spec k i) as [E|E].
  - intros H Hh. injection H as ->. subst k. cbn [map]. now rewrite Hh.
  - intros H Hh. cbn [map]. now rewrite IH.
Qed.

Lemma nodup_map_inj {A B} (f : A -> B) l a b : NoDup (map f l) -> In a l -> In b l -> f a = f b -> a = b.
Proof.
  induction l as [|x r IH]; intros Hn Ha Hb E; [destruct Ha|]. inversion Hn as [|? ? Hx Hr]; subst.
  destruct Ha as [->|Ha], Hb as [->|Hb]; auto.
  - exfalso. apply Hx. rewrite E. now apply in_map.
  - exfalso. apply Hx. rewrite <- E. now apply in_map.
Qed.

Lemma addr_unique l i j p q :
  NoDup (map (fun ip : Z * peer => paddr (snd ip)) l) ->
  aget i l = Some p -> aget j l = Some q -> paddr p = paddr q -> i = j.
Proof.
  intros Hn Hp Hq E. apply aget_in in Hp, Hq.
  assert (H : (i, p) = (j, q)) by (eapply (nodup_map_inj (fun ip : Z * peer => paddr (snd ip))); eauto).
  now injection H.
Qed.

Lemma fan1_static g pfx ch p :
  p_conf (fan1 g pfx ch p) = p_conf p /\ p_up (fan1 g pfx ch p) = p_up p /\ p_adjin (fan1 g pfx ch p) = p_adjin p.
Proof.
  unfold fan1. destruct (p_up p) eqn:Eu; [|auto]. destruct (fst ch) as [[w x]|]; [|auto].
  destruct (filterpath g (p_conf p) w x (snd ch)) as [[[|] y]|]; cbn; auto.
Qed.

Lemma rib_get_set_peer i p st k : rib_get (set_peer i p st) k = rib_get st k.
Proof. reflexivity. Qed.

Lemma rib_get_apply g pfx w x st k :
  rib_get (rib_apply g pfx w x st) k = if k =? pfx then dest_update g (rib_get st pfx) w x else rib_get st k.
Proof.
  unfold rib_apply, rib_get at 1. cbn [s_rib]. destruct (Z.eqb_spec k pfx) as [E|E].
  - subst k. now rewrite aget_aset_same.
  - rewrite aget_aset_other by congruence. reflexivity.
Qed.

Lemma peers_apply g pfx w x st :
  exists ch, s_peers (rib_apply g pfx w x st) = pmap (fan1 g pfx ch) (s_peers st).
Proof. eexists. reflexivity. Qed.

(* ---- a route of peer i changes for one destination *)
Lemma peer_update_Jc g st i p (adj' : list (Z * (attrs * bool))) pfx (w : bool) (a : attrs) ts :
  Jc st -> aget i (s_peers st) = Some p ->
  (forall k, k <> pfx -> aget k adj' = aget k (p_adjin p)) ->
  (if w then None else Some a) = (if p_up p then accepted (aget pfx adj') else None) ->
  Jc (rib_apply g pfx w (mkR (Some (p_conf p)) a ts) (set_peer i (mkPeer (p_conf p) (p_up p) adj' (p_view p)) st)).
Proof.
  intros J Hp Hadj Hres.
  set (p' := mkPeer (p_conf p) (p_up p) adj' (p_view p)).
  set (x := mkR (Some (p_conf p)) a ts).
  destruct (peers_apply g pfx w x (set_peer i p' st)) as (ch & Eps).
  assert (Estat : forall q, paddr (fan1 g pfx ch q) = paddr q).
  { intros q. unfold paddr. now rewrite (proj1 (fan1_static g pfx ch q)). }
  assert (Hget : forall j q', aget j (s_peers (rib_apply g pfx w x (set_peer i p' st))) = Some q' ->
                 exists q1, q' = fan1 g pfx ch q1 /\ ((j = i /\ q1 = p') \/ (j <> i /\ aget j (s_peers st) = Some q1))).
  { intros j q' H. rewrite Eps, aget_pmap in H. unfold set_peer in H. cbn [s_peers] in H.
    destruct (Z.eq_dec j i) as [->|N].
    - rewrite aget_aset_same in H. injection H as <-. exists p'. auto.
    - rewrite aget_aset_other in H by congruence. destruct (aget j (s_peers st)) as [q1|] eqn:Eq; [|discriminate].
      injection H as <-. exists q1. auto. }
  assert (Hconf : forall i0 p0, aget i0 (s_peers st) = Some p0 ->
                  exists p0', aget i0 (s_peers (rib_apply g pfx w x (set_peer i p' st))) = Some p0' /\ p_conf p0' = p_conf p0).
  { intros i0 p0 H0. rewrite Eps, aget_pmap. unfold set_peer. cbn [s_peers].
    destruct (Z.eq_dec i0 i) as [->|N].
    - rewrite aget_aset_same. eexists. split; [reflexivity|]. rewrite (proj1 (fan1_static _ _ _ _)).
      rewrite Hp in H0. injection H0 as <-. reflexivity.
    - rewrite aget_aset_other by congruence. rewrite H0. eexists. split; [reflexivity|]. apply fan1_static. }
  constructor.
  - rewrite Eps, keys_pmap. unfold set_peer. cbn [s_peers]. rewrite (map_aset_same fst i p p') by auto. apply J.
  - rewrite Eps, addrs_pmap by exact Estat. unfold set_peer. cbn [s_peers].
    rewrite (map_aset_same (fun ip => paddr (snd ip)) i p p') by auto. apply J.
  - intros k. rewrite rib_get_apply, rib_get_set_peer. destruct (k =? pfx); [apply du_nodup|]; apply J.
  - intros j q' Hq k. destruct (Hget j q' Hq) as (q1 & -> & Hcase).
    destruct (fan1_static g pfx ch q1) as (Fc & Fu & Fa). unfold paddr. rewrite Fc, Fu, Fa. fold (paddr q1).
    rewrite rib_get_apply, !rib_get_set_peer.
    destruct (Z.eqb_spec k pfx) as [Ek|Ek].
    + subst k. rewrite du_find by apply J. cbn [src_addr rp_src option_map x].
      destruct Hcase as [[-> ->]|[N Hq1]].
      * cbn [opt_eqb]. unfold paddr. cbn [p_conf p']. rewrite Z.eqb_refl. cbn [p_up p_adjin p']. exact Hres.
      * cbn [opt_eqb]. destruct (Z.eqb_spec (paddr q1) (pc_addr (p_conf p))) as [E|E].
        -- exfalso. apply N. eapply addr_unique; [apply J|exact Hq1|exact Hp|exact E].
        -- exact (jc_peer _ J j q1 Hq1 pfx).
    + destruct Hcase as [[-> ->]|[N Hq1]].
      * cbn [p_up p_adjin p']. rewrite (Hadj k Ek). unfold paddr. cbn [p_conf p']. exact (jc_peer _ J i p Hp k).
      * exact (jc_peer _ J j q1 Hq1 k).
  - intros k y Hin. rewrite rib_get_apply, rib_get_set_peer in Hin.
    assert (Hold : In y (rib_get st k) ->
                   match rp_src y with None => True
                   | Some c => exists i0 p0, aget i0 (s_peers (rib_apply g pfx w x (set_peer i p' st))) = Some p0 /\ p_conf p0 = c end).
    { intros H. pose proof (jc_src _ J k y H) as S. destruct (rp_src y) as [c|]; [|exact I].
      destruct S as (i0 & p0 & H0 & <-). destruct (Hconf _ _ H0) as (p0' & H1 & H2). eauto. }
    destruct (Z.eqb_spec k pfx) as [Ek|Ek]; [|now apply Hold].
    subst k. apply du_in in Hin. destruct Hin as [[_ ->]|Hin]; [|now apply Hold].
    cbn [rp_src x]. destruct (Hconf _ _ Hp) as (p0' & H1 & H2). eauto.
Qed.

(* ---- a local route changes *)
Lemma local_update_Jc g st pfx w a :
  Jc st -> Jc (rib_apply g pfx w (local_path a) st).
Proof.
  intros J. destruct (peers_apply g pfx w (local_path a) st) as (ch & Eps).
  assert (Estat : forall q, paddr (fan1 g pfx ch q) = paddr q).
  { intros q. unfold paddr. now rewrite (proj1 (fan1_static g pfx ch q)). }
  constructor.
  - rewrite Eps, keys_pmap. apply J.
  - rewrite Eps, addrs_pmap by exact Estat. apply J.
  - intros k. rewrite rib_get_apply. destruct (k =? pfx); [apply du_nodup|]; apply J.
  - intros j q' Hq k. rewrite Eps, aget_pmap in Hq. destruct (aget j (s_peers st)) as [q1|] eqn:Eq; [|discriminate].
    injection Hq as <-. destruct (fan1_static g pfx ch q1) as (Fc & Fu & Fa). unfold paddr. rewrite Fc, Fu, Fa. fold (paddr q1).
    rewrite rib_get_apply. destruct (Z.eqb_spec k pfx) as [Ek|Ek]; [|exact (jc_peer _ J j q1 Eq k)].
    subst k. rewrite du_find by apply J. cbn. exact (jc_peer _ J j q1 Eq pfx).
  - intros k y Hin. rewrite rib_get_apply in Hin.
    assert (Hold : In y (rib_get st k) ->
                   match rp_src y with None => True
                   | Some c => exists i0 p0, aget i0 (s_peers (rib_apply g pfx w (local_path a) st)) = Some p0 /\ p_conf p0 = c end).
    { intros H. pose proof (jc_src _ J k y H) as S. destruct (rp_src y) as [c|]; [|exact I].
      destruct S as (i0 & p0 & H0 & <-). rewrite Eps. exists i0. eexists. rewrite aget_pmap, H0. split; [reflexivity|]. apply fan1_static. }
    destruct (Z.eqb_spec k pfx) as [Ek|Ek]; [|now apply Hold].
    subst k. apply du_in in Hin. destruct Hin as [[_ ->]|Hin]; [exact I|now apply Hold].
Qed.

(* what the local source contributes is untouched by a peer's route, and vice versa *)
Lemma local_find_peer_update g st pfx w c a ts k :
  Jc st -> find_addr None (rib_get (rib_apply g pfx w (mkR (Some c) a ts) st) k) = find_addr None (rib_get st k).
Proof.
  intros J. rewrite rib_get_apply. destruct (Z.eqb_spec k pfx) as [->|E]; [|reflexivity].
  rewrite du_find by apply J. reflexivity.
Qed.

Lemma local_find_local_update g st pfx w a k :
  Jc st -> find_addr None (rib_get (rib_apply g pfx w (local_path a) st) k) =
           if k =? pfx then (if w then None else Some a) else find_addr None (rib_get st k).
Proof.
  intros J. rewrite rib_get_apply. destruct (Z.eqb_spec k pfx) as [->|E]; [|reflexivity].
  rewrite du_find by apply J. reflexivity.
Qed.
