(* C09: what the export function and the filters guarantee, per peer type. *)
From Coq Require Import List ZArith Bool Lia.
From Verif Require Import Decision.Model Speaker.Model Speaker.Lemmas Speaker.RibLemmas Speaker.ViewProofs.
Import ListNotations.
Open Scope Z_scope.

Fixpoint count (x : Z) (l : list Z) : nat :=
  match l with [] => O | y :: r => ((if Z.eqb y x then 1 else 0) + count x r)%nat end.

(* eBGP: local AS prepended exactly once, next hop = the session's local address, LOCAL_PREF / foreign MED /
   ORIGINATOR_ID / CLUSTER_LIST removed *)
Theorem export_ebgp g q x :
  pc_kind q = Ebgp ->
  let e := export g q x in
  a_path e = g_as g :: a_path (rp_attrs x) /\
  count (g_as g) (a_path e) = S (count (g_as g) (a_path (rp_attrs x))) /\
  (is_local x = false -> a_nh e = g_addr g /\ a_med e = None) /\
  (is_local x = true -> a_med e = a_med (rp_attrs x) /\
                        a_nh e = if a_nh (rp_attrs x) =? 0 then g_addr g else a_nh (rp_attrs x)) /\
  a_lp e = None /\ a_orig e = None /\ a_cl e = [] /\
  a_origin e = a_origin (rp_attrs x) /\ a_comms e = a_comms (rp_attrs x).
Proof.
  intros K e. subst e. unfold export. rewrite K. cbn [a_path a_nh a_med a_lp a_orig a_cl a_origin a_comms count].
  rewrite Z.eqb_refl. split; [reflexivity|]. split; [reflexivity|]. split.
  { intros ->. cbn. auto. }
  split.
  { intros ->. cbn. split; [reflexivity|]. destruct (a_nh (rp_attrs x) =? 0); reflexivity. }
  repeat split.
Qed.

(* iBGP (client or not): AS_PATH and next hop unchanged, LOCAL_PREF present *)
Theorem export_ibgp g q x :
  pc_kind q <> Ebgp ->
  let e := export g q x in
  a_path e = a_path (rp_attrs x) /\
  (is_local x = false -> a_nh e = a_nh (rp_attrs x)) /\
  a_lp e = Some (match a_lp (rp_attrs x) with Some v => v | None => 100 end) /\
  a_med e = a_med (rp_attrs x) /\ a_origin e = a_origin (rp_attrs x) /\ a_comms e = a_comms (rp_attrs x).
Proof.
  intros K e. subst e. unfold export. destruct (pc_kind q); [congruence| |]; cbn [a_path a_nh a_med a_lp a_origin a_comms];
    (split; [reflexivity|]); (split; [intros ->; reflexivity|]); repeat split.
Qed.

(* non-client iBGP: no reflection attributes; client: ORIGINATOR_ID kept or set, cluster-id prepended *)
Theorem export_reflection g q x :
  let e := export g q x in
  (pc_kind q = Ibgp -> a_orig e = None /\ a_cl e = []) /\
  (pc_kind q = RRc ->
     a_cl e = g_id g :: a_cl (rp_attrs x) /\
     a_orig e = Some (match a_orig (rp_attrs x) with
                      | Some o => o
                      | None => match rp_src x with Some s => pc_addr s | None => g_id g end
                      end)).
Proof. intros e. subst e. unfold export. split; intros ->; cbn; auto. Qed.

(* loop prevention on the way out *)
Theorem filter_never_back g q x : filter0 g q x = true -> src_addr x <> Some (pc_addr q).
Proof.
  unfold filter0. destruct (ibgp_stage g q x); [|discriminate]. intros H. apply andb_true_iff in H. destruct H as [H _].
  apply negb_true_iff in H. unfold from_me in H. intros E. rewrite E, opt_eqb_refl in H. discriminate.
Qed.

Theorem filter_no_as_loop g q x : filter0 g q x = true -> zmem (pc_as q) (a_path (rp_attrs x)) = false.
Proof.
  unfold filter0. destruct (ibgp_stage g q x); [|discriminate]. intros H. apply andb_true_iff in H. destruct H as [_ H].
  now apply negb_true_iff in H.
Qed.

Theorem filter_ibgp_split_horizon g q x s :
  filter0 g q x = true -> rp_src x = Some s ->
  is_ibgp_peer g q = true -> pc_kind q = Ibgp -> pc_as s = pc_as q -> pc_kind s = RRc.
Proof.
  unfold filter0, ibgp_stage. intros H Es Hi Hk Ha. rewrite Hi, Es in H. unfold is_rrc in H. rewrite Hk in H.
  rewrite Ha, Z.eqb_refl in H. cbn in H. destruct (pc_kind s); [discriminate|discriminate|reflexivity].
Qed.

Theorem filter_cluster_loop g q x s :
  filter0 g q x = true -> rp_src x = Some s -> is_ibgp_peer g q = true -> pc_kind q = RRc ->
  zmem (g_id g) (a_cl (rp_attrs x)) = false.
Proof.
  unfold filter0, ibgp_stage. intros H Es Hi Hk. rewrite Hi, Es in H. unfold is_rrc in H. rewrite Hk in H.
  destruct (zmem (g_id g) (a_cl (rp_attrs x))); [discriminate|reflexivity].
Qed.

(* everything an established peer holds was produced by export from a path that passed the filters *)
Theorem held_routes_are_exports g peers h i p pfx a :
  let st := run g peers h in
  In (i, p) (s_peers st) -> p_up p = true -> aget pfx (p_view p) = Some a ->
  exists b, In b (rib_get st pfx) /\ filter0 g (p_conf p) b = true /\ a = export g (p_conf p) b.
Proof.
  intros st Hin Hup Hv. destruct (nothing_stale g peers h i p pfx a Hin Hup Hv) as (b & Hb & Hf & Ha).
  exists b. split; [|auto]. fold st in Hb. destruct (rib_get st pfx); [discriminate|]. injection Hb as ->. now left.
Qed.
