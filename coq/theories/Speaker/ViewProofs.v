(* C01: in every reachable state, every established peer holds, per destination, exactly the export of the
   current best path (nothing when the best path may not be sent to it). *)
From Coq Require Import List ZArith Bool Lia.
From Verif Require Import Decision.Model Speaker.Model Speaker.Lemmas.
Import ListNotations.
Open Scope Z_scope.

Definition view_ok (g : gconf) (st : state) : Prop :=
  forall i p, In (i, p) (s_peers st) -> p_up p = true ->
    forall pfx, aget pfx (p_view p) = target g (p_conf p) (hd_error (rib_get st pfx)).
Definition rib_keys_ok (st : state) : Prop := NoDup (map fst (s_rib st)).
Definition Inv (g : gconf) (st : state) : Prop := view_ok g st /\ rib_keys_ok st.

Lemma rib_get_aset ps rib now pfx newl k :
  rib_get (mkS ps (aset pfx newl rib) now) k = if k =? pfx then newl else rib_get (mkS ps rib now) k.
Proof.
  unfold rib_get. cbn [s_rib]. destruct (Z.eqb_spec k pfx) as [E|E].
  - subst k. now rewrite aget_aset_same.
  - rewrite aget_aset_other by congruence. reflexivity.
Qed.

Lemma rib_apply_inv g pfx w x st : Inv g st -> Inv g (rib_apply g pfx w x st).
Proof.
  intros [Hv Hk]. split.
  - intros i p' Hin Hup k. unfold rib_apply in Hin. cbn [s_peers] in Hin.
    apply in_map_iff in Hin. destruct Hin as ([j p] & E & Hin). cbn [fst snd] in E. injection E as -> <-.
    pose proof (fan1_spec g pfx (rib_get st pfx) (dest_update g (rib_get st pfx) w x) p) as F.
    cbn zeta in F. destruct F as (Fc & Fu & _ & Fp & Fo).
    { intros Hu. exact (Hv _ _ Hin Hu pfx). }
    rewrite Fu in Hup. rewrite Fc.
    unfold rib_apply. destruct st as [ps rib now]. rewrite rib_get_aset.
    destruct (Z.eqb_spec k pfx) as [E|E].
    + subst k. exact (Fp Hup).
    + rewrite (Fo k E). exact (Hv _ _ Hin Hup k).
  - unfold rib_keys_ok, rib_apply. cbn [s_rib]. now apply nodup_keys_aset.
Qed.

Lemma set_adjin_inv g i p adj st :
  Inv g st -> aget i (s_peers st) = Some p ->
  Inv g (set_peer i (mkPeer (p_conf p) (p_up p) adj (p_view p)) st).
Proof.
  intros [Hv Hk] Hp. split; [|exact Hk].
  intros j q Hin Hup k. unfold set_peer in Hin. cbn [s_peers] in Hin.
  apply in_aset in Hin. destruct Hin as [E|Hin].
  - injection E as -> ->. cbn [p_view p_conf p_up] in *. apply aget_in in Hp.
    exact (Hv _ _ Hp Hup k).
  - exact (Hv _ _ Hin Hup k).
Qed.

Lemma withdraw_from_inv g i pfx st : Inv g st -> Inv g (withdraw_from g i pfx st).
Proof.
  intros H. unfold withdraw_from. destruct (aget i (s_peers st)) as [p|] eqn:Ep; [|exact H].
  apply rib_apply_inv. now apply set_adjin_inv.
Qed.

Lemma fold_withdraw_inv g i ks : forall st, Inv g st -> Inv g (fold_left (fun s k => withdraw_from g i k s) ks st).
Proof.
  induction ks as [|k ks IH]; intros st H; cbn [fold_left]; [exact H|].
  apply IH. now apply withdraw_from_inv.
Qed.

Lemma set_down_inv g i c st : Inv g st -> Inv g (set_peer i (mkPeer c false [] []) st).
Proof.
  intros [Hv Hk]. split; [|exact Hk].
  intros j q Hin Hup k. unfold set_peer in Hin. cbn [s_peers] in Hin.
  apply in_aset in Hin. destruct Hin as [E|Hin].
  - injection E as -> ->. cbn in Hup. discriminate.
  - exact (Hv _ _ Hin Hup k).
Qed.

Lemma go_down_inv g i st : Inv g st -> Inv g (go_down g i st).
Proof.
  intros H. unfold go_down. destruct (aget i (s_peers st)) as [p|]; [|exact H].
  destruct (p_up p); [|exact H].
  pose proof (fold_withdraw_inv g i (map fst (p_adjin p)) st H) as H1.
  destruct (aget i (s_peers (fold_left (fun s k => withdraw_from g i k s) (map fst (p_adjin p)) st))); [|exact H1].
  now apply set_down_inv.
Qed.

Lemma dump_keys g q rib k : In k (map fst (dump g q rib)) -> In k (map fst rib).
Proof.
  induction rib as [|[k' l] r IH]; simpl; [auto|].
  destruct l as [|b l']; [auto|]. destruct (filter0 g q b); simpl; [intros [H|H]; auto|auto].
Qed.

Lemma notin_aget_none {V} k (l : list (Z * V)) : ~ In k (map fst l) -> aget k l = None.
Proof.
  induction l as [|[k' v] r IH]; simpl; [reflexivity|].
  intros H. destruct (Z.eqb_spec k' k); [exfalso; auto|auto].
Qed.

Lemma dump_spec g q rib pfx :
  NoDup (map fst rib) ->
  aget pfx (dump g q rib) = target g q (hd_error (match aget pfx rib with Some l => l | None => [] end)).
Proof.
  induction rib as [|[k l] r IH]; intros Hn; [reflexivity|].
  inversion Hn as [|? ? Hk Hr]; subst. cbn [dump aget].
  destruct (Z.eqb_spec k pfx) as [E|E].
  - subst k. assert (Hnone : aget pfx (dump g q r) = None).
    { apply notin_aget_none. intros Hin. apply Hk. eapply dump_keys; eauto. }
    destruct l as [|b l']; [exact Hnone|]. cbn [hd_error]. unfold target.
    destruct (filter0 g q b); [|exact Hnone]. cbn [aget]. now rewrite Z.eqb_refl.
  - destruct l as [|b l']; [now apply IH|].
    destruct (filter0 g q b); [|now apply IH]. cbn [aget].
    destruct (Z.eqb_spec k pfx); [contradiction|now apply IH].
Qed.

Lemma step_inv g st e : Inv g st -> Inv g (step g st e).
Proof.
  intros H. destruct e as [i|i|i|i pfx a|i pfx|pfx a|pfx|n]; cbn [step].
  - destruct (aget i (s_peers st)) as [p|] eqn:Ep; [|exact H]. destruct (p_up p); [exact H|].
    destruct H as [Hv Hk]. split; [|exact Hk].
    intros j q Hin Hup k. unfold set_peer in Hin. cbn [s_peers] in Hin.
    apply in_aset in Hin. destruct Hin as [E|Hin]; [|exact (Hv _ _ Hin Hup k)].
    injection E as -> ->. cbn [p_view p_conf]. unfold rib_get, set_peer. cbn [s_rib].
    now apply dump_spec.
  - now apply go_down_inv.
  - pose proof (go_down_inv g i st H) as [Hv Hk]. split; [|exact Hk].
    intros j q Hin Hup k. cbn [s_peers] in Hin. apply in_adel in Hin.
    exact (Hv _ _ Hin Hup k).
  - destruct (aget i (s_peers st)) as [p|] eqn:Ep; [|exact H]. destruct (p_up p) eqn:Eu; [|exact H].
    apply rib_apply_inv. rewrite <- Eu. now apply set_adjin_inv.
  - destruct (aget i (s_peers st)) as [p|] eqn:Ep; [|exact H]. destruct (p_up p); [|exact H].
    now apply withdraw_from_inv.
  - now apply rib_apply_inv.
  - now apply rib_apply_inv.
  - destruct H as [Hv Hk]. split; [|exact Hk]. exact Hv.
Qed.

Lemma init_inv g peers : Inv g (init peers).
Proof.
  split.
  - intros i p Hin Hup. unfold init in Hin. cbn [s_peers] in Hin.
    apply in_map_iff in Hin. destruct Hin as (ic & E & _). injection E as _ <-. discriminate.
  - constructor.
Qed.

Lemma run_inv g peers h : Inv g (run g peers h).
Proof.
  unfold run. generalize (init_inv g peers). generalize (init peers).
  induction h as [|e h IH]; intros st H; cbn [fold_left]; [exact H|].
  apply IH. now apply step_inv.
Qed.

(* the statement of C01 for the modelled configuration space *)
Theorem view_is_export_of_best g peers h :
  let st := run g peers h in
  forall i p, In (i, p) (s_peers st) -> p_up p = true ->
    forall pfx, aget pfx (p_view p) = target g (p_conf p) (hd_error (rib_get st pfx)).
Proof. intros st. exact (proj1 (run_inv g peers h)). Qed.

(* consequences spelled out *)
Corollary nothing_stale g peers h i p pfx a :
  let st := run g peers h in
  In (i, p) (s_peers st) -> p_up p = true -> aget pfx (p_view p) = Some a ->
  exists b, hd_error (rib_get st pfx) = Some b /\ filter0 g (p_conf p) b = true /\ a = export g (p_conf p) b.
Proof.
  intros st Hin Hup Hv. rewrite (view_is_export_of_best g peers h i p Hin Hup pfx) in Hv.
  fold st in Hv. destruct (hd_error (rib_get st pfx)) as [b|]; [|discriminate].
  exists b. unfold target in Hv. destruct (filter0 g (p_conf p) b); [|discriminate].
  injection Hv as <-. auto.
Qed.

Corollary nothing_missing g peers h i p pfx b :
  let st := run g peers h in
  In (i, p) (s_peers st) -> p_up p = true ->
  hd_error (rib_get st pfx) = Some b -> filter0 g (p_conf p) b = true ->
  aget pfx (p_view p) = Some (export g (p_conf p) b).
Proof.
  intros st Hin Hup Hb Hf. rewrite (view_is_export_of_best g peers h i p Hin Hup pfx).
  fold st. rewrite Hb. unfold target. now rewrite Hf.
Qed.
