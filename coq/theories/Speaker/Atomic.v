(* C01 -- the assumption under the Speaker model's "one event at a time": the Loc-RIB update of a destination and the
   fan-out of its (new best, old best) pair to the neighbours happen inside ONE critical section of the destination's
   propagation bucket (pkg/server/server.go propagateUpdate), so two updates of one prefix cannot overtake each other
   between the table and the sessions.  The statement sequence of that function is regenerated from the source
   (Generated/C01Atomic.v); here is the vocabulary and the check. *)
From Coq Require Import List String Bool.
Import ListNotations.
Open Scope string_scope.

Inductive aop := AAcq (c : string) | ARel (c : string) | ACall (f : string).

(* does the sequence contain: acquire [lock], then a call of [first], then a call of [second], with no release of
   [lock] in between? *)
Fixpoint scan (lock first second : string) (st : nat) (l : list aop) : bool :=
  match l with
  | [] => false
  | o :: r =>
      match st, o with
      | 0, AAcq c => scan lock first second (if String.eqb c lock then 1 else 0) r
      | 1, ARel c => scan lock first second (if String.eqb c lock then 0 else 1) r
      | 1, ACall f => scan lock first second (if String.eqb f first then 2 else 1) r
      | 2, ARel c => scan lock first second (if String.eqb c lock then 0 else 2) r
      | 2, ACall f => if String.eqb f second then true else scan lock first second 2 r
      | _, _ => scan lock first second st r
      end
  end.
(* ... and the second call happens nowhere outside such a section *)
Fixpoint only_inside (lock second : string) (held : bool) (l : list aop) : bool :=
  match l with
  | [] => true
  | AAcq c :: r => only_inside lock second (held || String.eqb c lock) r
  | ARel c :: r => only_inside lock second (held && negb (String.eqb c lock)) r
  | ACall f :: r => (negb (String.eqb f second) || held) && only_inside lock second held r
  end.
Definition in_one_section (lock first second : string) (l : list aop) : bool :=
  scan lock first second 0 l && only_inside lock second false l.
