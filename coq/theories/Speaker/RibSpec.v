(* C02: the abstract content of the RIBs as a function of the history, and the proof that the speaker model
   refines it.  The abstract state is the simplest possible one: per peer whether a session is up and the latest
   un-withdrawn route per destination received on it; per destination the locally injected route. *)
From Coq Require Import List ZArith Bool Lia Permutation.
From Verif Require Import Decision.Model Speaker.Model Speaker.Lemmas Speaker.RibLemmas Speaker.ViewProofs Speaker.RibProofs.
Import ListNotations.
Open Scope Z_scope.

Record spec := mkSp { sp_known : Z -> bool; sp_up : Z -> bool; sp_adj : Z -> Z -> option attrs; sp_loc : Z -> option attrs }.
Definition upd {A} (f : Z -> A) (k : Z) (v : A) : Z -> A := fun k' => if k' =? k then v else f k'.
Definition no_routes : Z -> option attrs := fun _ => None.

Definition spec_step (sp : spec) (e : event) : spec :=
  match e with
  | EUp i => if sp_known sp i && negb (sp_up sp i)
             then mkSp (sp_known sp) (upd (sp_up sp) i true) (upd (sp_adj sp) i no_routes) (sp_loc sp) else sp
  | EDown i => if sp_known sp i && sp_up sp i
               then mkSp (sp_known sp) (upd (sp_up sp) i false) (upd (sp_adj sp) i no_routes) (sp_loc sp) else sp
  | EDel i => mkSp (upd (sp_known sp) i false) (upd (sp_up sp) i false) (upd (sp_adj sp) i no_routes) (sp_loc sp)
  | EAnn i pfx a => if sp_known sp i && sp_up sp i
                    then mkSp (sp_known sp) (sp_up sp) (upd (sp_adj sp) i (upd (sp_adj sp i) pfx (Some a))) (sp_loc sp) else sp
  | EWd i pfx => if sp_known sp i && sp_up sp i
                 then mkSp (sp_known sp) (sp_up sp) (upd (sp_adj sp) i (upd (sp_adj sp i) pfx None)) (sp_loc sp) else sp
  | EApiAdd pfx a => mkSp (sp_known sp) (sp_up sp) (sp_adj sp) (upd (sp_loc sp) pfx (Some a))
  | EApiDel pfx => mkSp (sp_known sp) (sp_up sp) (sp_adj sp) (upd (sp_loc sp) pfx None)
  | ESleep _ => sp
  end.
Definition spec_init (peers : list (Z * pconf)) : spec :=
  mkSp (fun i => match aget i peers with Some _ => true | None => false end) (fun _ => false) (fun _ => no_routes) (fun _ => None).
Definition spec_run (peers : list (Z * pconf)) (h : list event) : spec := fold_left spec_step h (spec_init peers).

(* ---- the refinement relation *)
Definition adj_entry (g : gconf) (c : pconf) (o : option attrs) : option (attrs * bool) :=
  option_map (fun a => (a, rejected g c a)) o.
Definition peers_ok (g : gconf) (st : state) (sp : spec) : Prop :=
  forall i, match aget i (s_peers st) with
            | Some p => sp_known sp i = true /\ p_up p = sp_up sp i /\
                        forall pfx, aget pfx (p_adjin p) = adj_entry g (p_conf p) (sp_adj sp i pfx)
            | None => sp_known sp i = false
            end.
Definition local_ok (st : state) (sp : spec) : Prop := forall pfx, find_addr None (rib_get st pfx) = sp_loc sp pfx.
Definition R (g : gconf) (st : state) (sp : spec) : Prop := Jc st /\ peers_ok g st sp /\ local_ok st sp.

(* ---- how one table update changes the peer list: static parts stay *)
Lemma apply_get g pfx w x st j :
  exists ch, aget j (s_peers (rib_apply g pfx w x st)) = option_map (fan1 g pfx ch) (aget j (s_peers st)).
Proof. destruct (peers_apply g pfx w x st) as (ch & E). exists ch. now rewrite E, aget_pmap. Qed.

Definition same_static (q p : peer) : Prop := p_conf q = p_conf p /\ p_up q = p_up p /\ p_adjin q = p_adjin p.

Lemma apply_static g pfx w x st j :
  match aget j (s_peers st), aget j (s_peers (rib_apply g pfx w x st)) with
  | Some p, Some q => same_static q p
  | None, None => True
  | _, _ => False
  end.
Proof.
  destruct (apply_get g pfx w x st j) as (ch & E). rewrite E.
  destruct (aget j (s_peers st)) as [p|]; cbn; [apply fan1_static|exact I].
Qed.

Lemma set_peer_get i p st j : aget j (s_peers (set_peer i p st)) = if j =? i then Some p else aget j (s_peers st).
Proof.
  unfold set_peer. cbn [s_peers]. destruct (Z.eqb_spec j i) as [E|N]; [subst j|].
  - apply aget_aset_same.
  - apply aget_aset_other. congruence.
Qed.

Lemma accepted_entry g c o : accepted (adj_entry g c o) = match o with Some a => if rejected g c a then None else Some a | None => None end.
Proof. destruct o as [a|]; cbn; [destruct (rejected g c a); reflexivity|reflexivity]. Qed.

(* ---- announcement *)
Lemma ann_R g st sp i pfx a p t :
  R g st sp -> aget i (s_peers st) = Some p -> p_up p = true ->
  R g (rib_apply g pfx (rejected g (p_conf p) a) (mkR (Some (p_conf p)) a t)
         (set_peer i (mkPeer (p_conf p) (p_up p) (aset pfx (a, rejected g (p_conf p) a) (p_adjin p)) (p_view p)) st))
      (mkSp (sp_known sp) (sp_up sp) (upd (sp_adj sp) i (upd (sp_adj sp i) pfx (Some a))) (sp_loc sp)).
Proof.
  intros (J & P & L) Hp Hup. split; [|split].
  - apply peer_update_Jc; auto.
    + intros k Hk. apply aget_aset_other. congruence.
    + rewrite Hup, aget_aset_same. cbn. destruct (rejected g (p_conf p) a); reflexivity.
  - intros j. pose proof (apply_static g pfx (rejected g (p_conf p) a) (mkR (Some (p_conf p)) a t)
                            (set_peer i (mkPeer (p_conf p) (p_up p) (aset pfx (a, rejected g (p_conf p) a) (p_adjin p)) (p_view p)) st) j) as S.
    rewrite set_peer_get in S. specialize (P j). cbn [sp_known sp_up sp_adj].
    destruct (Z.eqb_spec j i) as [E|N]; [subst j|].
    + rewrite Hp in P. destruct P as (Pk & Pu & Pa).
      destruct (aget i (s_peers (rib_apply _ _ _ _ _))) as [q|]; [|destruct S].
      destruct S as (Sc & Su & Sa). cbn [p_conf p_up p_adjin] in Sc, Su, Sa.
      rewrite Sc, Su, Sa. split; [exact Pk|]. split; [exact Pu|].
      intros k. unfold upd at 1. rewrite Z.eqb_refl. unfold upd.
      destruct (Z.eqb_spec k pfx) as [->|Nk].
      * now rewrite aget_aset_same.
      * rewrite aget_aset_other by congruence. apply Pa.
    + destruct (aget j (s_peers st)) as [q0|].
      * destruct (aget j (s_peers (rib_apply _ _ _ _ _))) as [q|]; [|destruct S].
        destruct S as (Sc & Su & Sa). rewrite Sc, Su, Sa. destruct P as (Pk & Pu & Pa).
        split; [exact Pk|]. split; [exact Pu|]. intros k. unfold upd.
        destruct (Z.eqb_spec j i); [contradiction|]. apply Pa.
      * destruct (aget j (s_peers (rib_apply _ _ _ _ _))); [destruct S|exact P].
  - intros k. cbn [sp_loc]. rewrite <- (L k).
    rewrite rib_get_apply, !rib_get_set_peer. destruct (Z.eqb_spec k pfx) as [->|E]; [|reflexivity].
    rewrite du_find by apply J. reflexivity.
Qed.

(* ---- withdrawal (received, or generated when the session ends) *)
Lemma withdraw_Jc g st i pfx : Jc st -> Jc (withdraw_from g i pfx st).
Proof.
  intros J. unfold withdraw_from. destruct (aget i (s_peers st)) as [p|] eqn:Hp; [|exact J].
  apply peer_update_Jc; auto.
  - intros k Hk. apply aget_adel_other. congruence.
  - rewrite aget_adel_same. cbn. destruct (p_up p); reflexivity.
Qed.

Lemma withdraw_frame g st i pfx :
  Jc st ->
  (forall k, find_addr None (rib_get (withdraw_from g i pfx st) k) = find_addr None (rib_get st k)) /\
  (forall j, match aget j (s_peers st), aget j (s_peers (withdraw_from g i pfx st)) with
             | Some p, Some q => p_conf q = p_conf p /\ p_up q = p_up p /\
                                 p_adjin q = if j =? i then adel pfx (p_adjin p) else p_adjin p
             | None, None => True
             | _, _ => False
             end).
Proof.
  intros J. unfold withdraw_from. destruct (aget i (s_peers st)) as [p|] eqn:Hp.
  - split.
    + intros k. rewrite rib_get_apply, !rib_get_set_peer. destruct (Z.eqb_spec k pfx) as [->|E]; [|reflexivity].
      rewrite du_find by apply J. reflexivity.
    + intros j.
      match goal with |- context [rib_apply g pfx true ?x ?s] => pose proof (apply_static g pfx true x s j) as S end.
      rewrite set_peer_get in S. destruct (Z.eqb_spec j i) as [E|N]; [subst j|].
      * rewrite Hp. destruct (aget i (s_peers (rib_apply _ _ _ _ _))) as [q|]; [|destruct S].
        destruct S as (Sc & Su & Sa). cbn [p_conf p_up p_adjin] in Sc, Su, Sa. auto.
      * destruct (Z.eqb_spec j i); [contradiction|].
        destruct (aget j (s_peers st)) as [q0|]; destruct (aget j (s_peers (rib_apply _ _ _ _ _))) as [q|]; auto.
  - split; [reflexivity|]. intros j. destruct (Z.eqb_spec j i) as [E|N]; [subst j; rewrite Hp; exact I|].
    destruct (aget j (s_peers st)); auto.
Qed.

Fixpoint adel_all {V} (ks : list Z) (l : list (Z * V)) : list (Z * V) :=
  match ks with [] => l | k :: r => adel_all r (adel k l) end.

Lemma aget_adel_all {V} ks : forall (l : list (Z * V)) k,
  aget k (adel_all ks l) = if existsb (Z.eqb k) ks then None else aget k l.
Proof.
  induction ks as [|k0 ks IH]; intros l k; [reflexivity|]. cbn [adel_all existsb]. rewrite IH.
  destruct (existsb (Z.eqb k) ks); [now rewrite orb_true_r|]. rewrite orb_false_r.
  destruct (Z.eqb_spec k k0) as [->|N]; [apply aget_adel_same|apply aget_adel_other; congruence].
Qed.

Lemma aget_adel_all_keys {V} (l : list (Z * V)) k : aget k (adel_all (map fst l) l) = None.
Proof.
  rewrite aget_adel_all. destruct (existsb (Z.eqb k) (map fst l)) eqn:E; [reflexivity|].
  apply notin_aget_none. intros Hin. assert (existsb (Z.eqb k) (map fst l) = true); [|congruence].
  apply existsb_exists. exists k. split; [exact Hin|apply Z.eqb_refl].
Qed.

Lemma fold_withdraw_frame g i ks : forall st,
  Jc st ->
  let st' := fold_left (fun s k => withdraw_from g i k s) ks st in
  Jc st' /\
  (forall k, find_addr None (rib_get st' k) = find_addr None (rib_get st k)) /\
  (forall j, match aget j (s_peers st), aget j (s_peers st') with
             | Some p, Some q => p_conf q = p_conf p /\ p_up q = p_up p /\
                                 p_adjin q = if j =? i then adel_all ks (p_adjin p) else p_adjin p
             | None, None => True
             | _, _ => False
             end).
Proof.
  induction ks as [|k0 ks IH]; intros st J; cbn [fold_left].
  - split; [exact J|]. split; [reflexivity|]. intros j. destruct (aget j (s_peers st)); [|exact I].
    repeat split. destruct (j =? i); reflexivity.
  - pose proof (withdraw_Jc g st i k0 J) as J1. destruct (withdraw_frame g st i k0 J) as (L1 & F1).
    destruct (IH _ J1) as (J2 & L2 & F2). split; [exact J2|]. split.
    + intros k. now rewrite L2, L1.
    + intros j. specialize (F1 j). specialize (F2 j).
      destruct (aget j (s_peers st)) as [p|]; destruct (aget j (s_peers (withdraw_from g i k0 st))) as [p1|]; try contradiction.
      * destruct (aget j (s_peers (fold_left _ ks (withdraw_from g i k0 st)))) as [q|]; [|contradiction].
        destruct F1 as (C1 & U1 & A1), F2 as (C2 & U2 & A2). rewrite C2, U2, A2, C1, U1, A1.
        repeat split. cbn [adel_all]. destruct (j =? i); reflexivity.
      * exact F2.
Qed.

(* ---- marking a peer down (its routes are gone) or up (it has none yet) *)
Lemma set_updown_Jc st i p up view :
  Jc st -> aget i (s_peers st) = Some p ->
  (forall pfx, find_addr (Some (paddr p)) (rib_get st pfx) = None) ->
  Jc (set_peer i (mkPeer (p_conf p) up [] view) st).
Proof.
  intros J Hp Hnone. constructor.
  - unfold set_peer. cbn [s_peers]. rewrite (map_aset_same fst i p) by auto. apply J.
  - unfold set_peer. cbn [s_peers]. rewrite (map_aset_same (fun ip => paddr (snd ip)) i p) by auto. apply J.
  - intros k. rewrite rib_get_set_peer. apply J.
  - intros j q Hq k. rewrite set_peer_get in Hq. rewrite rib_get_set_peer. destruct (Z.eqb_spec j i) as [E|N]; [subst j|].
    + injection Hq as <-. cbn [p_up p_adjin aget]. unfold paddr. cbn [p_conf]. fold (paddr p). rewrite Hnone.
      destruct up; reflexivity.
    + exact (jc_peer _ J j q Hq k).
  - intros k y Hin. rewrite rib_get_set_peer in Hin. pose proof (jc_src _ J k y Hin) as S.
    destruct (rp_src y) as [c|]; [|exact I]. destruct S as (i0 & p0 & H0 & <-).
    exists i0. rewrite set_peer_get. destruct (Z.eqb_spec i0 i) as [->|N].
    + eexists. split; [reflexivity|]. rewrite Hp in H0. now injection H0 as <-.
    + eauto.
Qed.

Lemma go_down_spec g st i :
  Jc st ->
  let st' := go_down g i st in
  Jc st' /\
  (forall k, find_addr None (rib_get st' k) = find_addr None (rib_get st k)) /\
  (forall j, match aget j (s_peers st), aget j (s_peers st') with
             | Some p, Some q => p_conf q = p_conf p /\
                                 (if (j =? i) && p_up p then p_up q = false /\ p_adjin q = []
                                  else p_up q = p_up p /\ p_adjin q = p_adjin p)
             | None, None => True
             | _, _ => False
             end).
Proof.
  intros J. unfold go_down.
  destruct (aget i (s_peers st)) as [p|] eqn:Hp.
  2:{ cbn zeta. split; [exact J|]. split; [reflexivity|]. intros j.
      destruct (aget j (s_peers st)) as [q|] eqn:Hq; [|exact I]. split; [reflexivity|].
      destruct (Z.eqb_spec j i) as [E|N]; [subst j; congruence|cbn [andb]; auto]. }
  destruct (p_up p) eqn:Eu.
  2:{ cbn zeta. split; [exact J|]. split; [reflexivity|]. intros j.
      destruct (aget j (s_peers st)) as [q|] eqn:Hq; [|exact I]. split; [reflexivity|].
      destruct (Z.eqb_spec j i) as [E|N]; [subst j|cbn [andb]; auto].
      rewrite Hp in Hq. injection Hq as <-. rewrite Eu. cbn [andb]. auto. }
  destruct (fold_withdraw_frame g i (map fst (p_adjin p)) st J) as (J1 & L1 & F1).
  set (st1 := fold_left (fun s k => withdraw_from g i k s) (map fst (p_adjin p)) st) in *.
  pose proof (F1 i) as Fi. rewrite Hp in Fi. destruct (aget i (s_peers st1)) as [p1|] eqn:Hp1; [|destruct Fi].
  destruct Fi as (C1 & U1 & A1). rewrite Z.eqb_refl in A1.
  assert (Hnone : forall pfx, find_addr (Some (paddr p1)) (rib_get st1 pfx) = None).
  { intros pfx. rewrite (jc_peer _ J1 i p1 Hp1 pfx). rewrite U1, Eu, A1, aget_adel_all_keys. reflexivity. }
  cbn zeta. split; [now apply set_updown_Jc|]. split.
  - intros k. rewrite rib_get_set_peer. apply L1.
  - intros j. rewrite set_peer_get. specialize (F1 j). destruct (Z.eqb_spec j i) as [E|N]; [subst j|].
    + rewrite Hp, Eu. cbn. auto.
    + destruct (aget j (s_peers st)) as [q0|]; destruct (aget j (s_peers st1)) as [q|]; auto;
        try (cbn [andb]; destruct F1 as (C & U & A); auto).
Qed.

(* ---- the refinement step *)
Lemma step_R g st sp e : R g st sp -> R g (step g st e) (spec_step sp e).
Proof.
  intros HR. pose proof HR as (J & P & L).
  destruct e as [i|i|i|i pfx a|i pfx|pfx a|pfx|n]; cbn [step spec_step].
  - (* up *)
    pose proof (P i) as Pi. destruct (aget i (s_peers st)) as [p|] eqn:Hp.
    + destruct Pi as (Pk & Pu & Pa). rewrite Pk, <- Pu. destruct (p_up p) eqn:Eu; [exact HR|]. cbn [andb negb].
      assert (Hnone : forall pfx, find_addr (Some (paddr p)) (rib_get st pfx) = None).
      { intros pfx. rewrite (jc_peer _ J i p Hp pfx), Eu. reflexivity. }
      split; [now apply set_updown_Jc|]. split.
      * intros j. rewrite set_peer_get. cbn [sp_known sp_up sp_adj]. unfold upd. destruct (Z.eqb_spec j i) as [E|N]; [subst j|].
        -- cbn [p_up p_adjin p_conf aget]. auto.
        -- exact (P j).
      * intros k. rewrite rib_get_set_peer. apply L.
    + rewrite Pi. exact HR.
  - (* down *)
    destruct (go_down_spec g st i J) as (J1 & L1 & F1). pose proof (P i) as Pi.
    assert (Hcase : sp_known sp i && sp_up sp i = match aget i (s_peers st) with Some p => p_up p | None => false end).
    { destruct (aget i (s_peers st)) as [p|]; [destruct Pi as (-> & -> & _); reflexivity|now rewrite Pi]. }
    split; [exact J1|]. split.
    + intros j. specialize (F1 j). specialize (P j).
      destruct (aget j (s_peers st)) as [p|] eqn:Hp; destruct (aget j (s_peers (go_down g i st))) as [q|]; try contradiction.
      * destruct F1 as (C & F). destruct P as (Pk & Pu & Pa). destruct (Z.eqb_spec j i) as [E|N]; [subst j|].
        -- rewrite Hp in Hcase. rewrite Hcase. destruct (p_up p) eqn:Eu; cbn [andb] in F.
           ++ destruct F as (U & A). cbn [sp_known sp_up sp_adj]. unfold upd. rewrite Z.eqb_refl, U, A. auto.
           ++ destruct F as (U & A). rewrite C, U, A. auto.
        -- cbn [andb] in F. destruct F as (U & A). rewrite C, U, A.
           destruct (sp_known sp i && sp_up sp i); [|auto]. cbn [sp_known sp_up sp_adj]. unfold upd.
           destruct (Z.eqb_spec j i); [contradiction|auto].
      * destruct (sp_known sp i && sp_up sp i); [|exact P]. exact P.
    + intros k. rewrite L1. destruct (sp_known sp i && sp_up sp i); apply L.
  - (* delete *)
    destruct (go_down_spec g st i J) as (J1 & L1 & F1).
    set (st1 := go_down g i st) in *.
    assert (Hdown : forall p, aget i (s_peers st1) = Some p -> p_up p = false).
    { intros q Hq. specialize (F1 i). rewrite Hq in F1. destruct (aget i (s_peers st)) as [p|]; [|destruct F1].
      destruct F1 as (_ & F). rewrite Z.eqb_refl in F. cbn [andb] in F. destruct (p_up p); destruct F; auto. }
    assert (Hget : forall j, aget j (adel i (s_peers st1)) = if j =? i then None else aget j (s_peers st1)).
    { intros j. destruct (Z.eqb_spec j i) as [E|N]; [subst j|]; [apply aget_adel_same|apply aget_adel_other; congruence]. }
    split; [|split].
    + constructor; cbn [s_peers].
      * apply nodup_keys_adel. apply J1.
      * pose proof (jc_addrs _ J1) as A. revert A. generalize (s_peers st1). intros l.
        induction l as [|[k v] r IH]; cbn [map adel]; intros A; [constructor|]. inversion A as [|? ? Hx Hr]; subst.
        destruct (k =? i); [auto|]. cbn [map]. constructor; [|auto].
        intros Hin. apply Hx. apply in_map_iff in Hin. destruct Hin as (z & Ez & Hz). apply in_map_iff. exists z.
        split; [exact Ez|]. eapply in_adel; eauto.
      * intros k. apply (jc_nodup _ J1).
      * intros j q Hq k. rewrite Hget in Hq. destruct (j =? i); [discriminate|]. exact (jc_peer _ J1 j q Hq k).
      * intros k y Hin. change (rib_get _ k) with (rib_get st1 k) in Hin.
        pose proof (jc_src _ J1 k y Hin) as S. destruct (rp_src y) as [c|] eqn:Ey; [|exact I].
        destruct S as (i0 & p0 & H0 & Hc). exists i0, p0. split; [|exact Hc]. rewrite Hget.
        destruct (Z.eqb_spec i0 i) as [->|N]; [|exact H0]. exfalso.
        pose proof (in_find_addr y _ (jc_nodup _ J1 k) Hin) as Hf.
        assert (Es : src_addr y = Some (paddr p0)) by (unfold src_addr, paddr; rewrite Ey, Hc; reflexivity).
        rewrite Es, (jc_peer _ J1 i p0 H0 k), (Hdown _ H0) in Hf. discriminate.
    + intros j. cbn [s_peers]. rewrite Hget. cbn [sp_known sp_up sp_adj]. unfold upd. destruct (Z.eqb_spec j i) as [E|N]; [subst j|]; [reflexivity|].
      specialize (F1 j). specialize (P j).
      destruct (aget j (s_peers st)) as [p|]; destruct (aget j (s_peers st1)) as [q|]; try contradiction; [|exact P].
      destruct F1 as (C & F). destruct (Z.eqb_spec j i); [contradiction|]. cbn [andb] in F. destruct F as (U & A).
      rewrite C, U, A. exact P.
    + intros k. change (rib_get _ k) with (rib_get st1 k). rewrite L1. apply L.
  - (* announce *)
    pose proof (P i) as Pi. destruct (aget i (s_peers st)) as [p|] eqn:Hp.
    + destruct Pi as (Pk & Pu & Pa). rewrite Pk, <- Pu. destruct (p_up p) eqn:Eu; [|exact HR]. cbn [andb].
      rewrite <- Eu at 1. now apply ann_R.
    + rewrite Pi. exact HR.
  - (* withdraw *)
    pose proof (P i) as Pi. destruct (aget i (s_peers st)) as [p|] eqn:Hp.
    + destruct Pi as (Pk & Pu & Pa). rewrite Pk, <- Pu. destruct (p_up p) eqn:Eu; [|exact HR]. cbn [andb].
      destruct (withdraw_frame g st i pfx J) as (L1 & F1). split; [now apply withdraw_Jc|]. split.
      * intros j. specialize (F1 j). specialize (P j). cbn [sp_known sp_up sp_adj].
        destruct (aget j (s_peers st)) as [q0|]; destruct (aget j (s_peers (withdraw_from g i pfx st))) as [q|]; try contradiction; [|exact P].
        destruct F1 as (C & U & A). destruct P as (Qk & Qu & Qa). rewrite C, U, A. split; [exact Qk|]. split; [exact Qu|].
        intros k. unfold upd. destruct (Z.eqb_spec j i) as [E|N]; [subst j|]; [|apply Qa].
        destruct (Z.eqb_spec k pfx) as [->|Nk]; [now rewrite aget_adel_same|].
        rewrite aget_adel_other by congruence. apply Qa.
      * intros k. rewrite L1. apply L.
    + rewrite Pi. exact HR.
  - (* local add *)
    split; [now apply local_update_Jc|]. split.
    + intros j. pose proof (apply_static g pfx false (local_path a) st j) as S. specialize (P j). cbn [sp_known sp_up sp_adj].
      destruct (aget j (s_peers st)) as [q0|]; destruct (aget j (s_peers (rib_apply _ _ _ _ _))) as [q|]; try contradiction; [|exact P].
      destruct S as (C & U & A). rewrite C, U, A. exact P.
    + intros k. rewrite local_find_local_update by exact J. cbn [sp_loc]. unfold upd. destruct (k =? pfx); [reflexivity|apply L].
  - (* local delete *)
    split; [now apply local_update_Jc|]. split.
    + intros j. pose proof (apply_static g pfx true (local_path (mkA 0 [] 0 None None [] None [])) st j) as S. specialize (P j). cbn [sp_known sp_up sp_adj].
      destruct (aget j (s_peers st)) as [q0|]; destruct (aget j (s_peers (rib_apply _ _ _ _ _))) as [q|]; try contradiction; [|exact P].
      destruct S as (C & U & A). rewrite C, U, A. exact P.
    + intros k. rewrite local_find_local_update by exact J. cbn [sp_loc]. unfold upd. destruct (k =? pfx); [reflexivity|apply L].
  - (* time passes *)
    split; [|split; [exact P|exact L]]. destruct J as [K1 K2 K3 K4 K5]. constructor; assumption.
Qed.

Lemma init_R g peers :
  NoDup (map fst peers) -> NoDup (map (fun ic => pc_addr (snd ic)) peers) -> R g (init peers) (spec_init peers).
Proof.
  intros Hk Ha. split; [|split].
  - constructor; unfold init; cbn [s_peers].
    + rewrite map_map. cbn [fst]. exact Hk.
    + rewrite map_map. exact Ha.
    + intros pfx. constructor.
    + intros i p Hp pfx. unfold rib_get. cbn [s_rib aget].
      assert (p_up p = false); [|now rewrite H].
      apply aget_in in Hp. apply in_map_iff in Hp. destruct Hp as (ic & E & _). injection E as _ <-. reflexivity.
    + intros pfx y [].
  - intros i. unfold init, spec_init. cbn [s_peers sp_known sp_up sp_adj].
    induction peers as [|[k c] r IH]; [reflexivity|]. cbn [map aget fst snd].
    destruct (k =? i).
    + cbn [p_up p_adjin aget]. auto.
    + inversion Hk; inversion Ha; subst. now apply IH.
  - intros pfx. reflexivity.
Qed.

Lemma run_R g peers h :
  NoDup (map fst peers) -> NoDup (map (fun ic => pc_addr (snd ic)) peers) ->
  R g (run g peers h) (spec_run peers h).
Proof.
  intros Hk Ha. unfold run, spec_run. generalize (init_R g peers Hk Ha). generalize (init peers), (spec_init peers).
  induction h as [|e h IH]; intros st sp H; cbn [fold_left]; [exact H|]. apply IH. now apply step_R.
Qed.

(* ---- the statements used by Properties/C02.v *)
Definition wf_config (peers : list (Z * pconf)) : Prop :=
  NoDup (map fst peers) /\ NoDup (map (fun ic => pc_addr (snd ic)) peers).

Theorem adj_rib_in_is_latest g peers h :
  wf_config peers ->
  let st := run g peers h in
  let sp := spec_run peers h in
  forall i, match aget i (s_peers st) with
            | Some p => sp_known sp i = true /\ p_up p = sp_up sp i /\
                        forall pfx, aget pfx (p_adjin p) = adj_entry g (p_conf p) (sp_adj sp i pfx)
            | None => sp_known sp i = false
            end.
Proof. intros [Hk Ha]. exact (proj1 (proj2 (run_R g peers h Hk Ha))). Qed.

Theorem loc_rib_exact g peers h :
  wf_config peers ->
  let st := run g peers h in
  let sp := spec_run peers h in
  forall pfx,
    NoDup (map src_addr (rib_get st pfx)) /\
    find_addr None (rib_get st pfx) = sp_loc sp pfx /\
    (forall i p, aget i (s_peers st) = Some p ->
       find_addr (Some (paddr p)) (rib_get st pfx) =
         if sp_up sp i then accepted (adj_entry g (p_conf p) (sp_adj sp i pfx)) else None) /\
    (forall y, In y (rib_get st pfx) ->
       match rp_src y with
       | None => True
       | Some c => exists i p, aget i (s_peers st) = Some p /\ p_conf p = c /\ sp_known sp i = true /\ sp_up sp i = true /\
                               sp_adj sp i pfx = Some (rp_attrs y) /\ rejected g c (rp_attrs y) = false
       end).
Proof.
  intros [Hk Ha] st sp pfx. destruct (run_R g peers h Hk Ha) as (J & P & L). fold st sp in J, P, L.
  split; [apply J|]. split; [apply L|]. split.
  - intros i p Hp. rewrite (jc_peer _ J i p Hp pfx). specialize (P i). rewrite Hp in P. destruct P as (_ & Pu & Pa).
    now rewrite Pu, Pa.
  - intros y Hin. pose proof (jc_src _ J pfx y Hin) as S. destruct (rp_src y) as [c|] eqn:Ey; [|exact I].
    destruct S as (i & p & Hp & Hc). exists i, p. split; [exact Hp|]. split; [exact Hc|].
    pose proof (in_find_addr y _ (jc_nodup _ J pfx) Hin) as Hf.
    assert (Es : src_addr y = Some (paddr p)) by (unfold src_addr, paddr; rewrite Ey, Hc; reflexivity).
    rewrite Es, (jc_peer _ J i p Hp pfx) in Hf. specialize (P i). rewrite Hp in P. destruct P as (Pk & Pu & Pa).
    rewrite Pu, Pa, accepted_entry in Hf. split; [exact Pk|].
    destruct (sp_up sp i); [|discriminate]. split; [reflexivity|].
    destruct (sp_adj sp i pfx) as [a|]; [|discriminate]. rewrite Hc in Hf.
    destruct (rejected g c a) eqn:Er; [discriminate|]. injection Hf as ->. auto.
Qed.
