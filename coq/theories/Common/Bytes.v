(* Byte strings (list Z, each in [0,256)), Go-faithful indexing/slicing with Panic, big-endian fields. *)
From Coq Require Import List ZArith Bool Lia.
From Verif Require Import Common.Res.
Import ListNotations.
Open Scope Z_scope.

Definition byte_ok (b : Z) : Prop := 0 <= b < 256.
Definition bytes_ok (l : list Z) : Prop := Forall byte_ok l.
Definition blen (l : list Z) : Z := Z.of_nat (length l).

(* data[i] *)
Definition idx (l : list Z) (i : Z) : res Z :=
  if (i <? 0) || (blen l <=? i) then Panic else Ok (nth (Z.to_nat i) l 0).
(* data[a:b] on a slice with len = cap *)
Definition slice (l : list Z) (a b : Z) : res (list Z) :=
  if (a <? 0) || (b <? a) || (blen l <? b) then Panic else Ok (firstn (Z.to_nat (b - a)) (skipn (Z.to_nat a) l)).

Definition be16 (n : Z) : list Z := [n / 256 mod 256; n mod 256].
Definition be32 (n : Z) : list Z := [n / 16777216 mod 256; n / 65536 mod 256; n / 256 mod 256; n mod 256].
Definition de16 (l : list Z) : Z := match l with [a; b] => a * 256 + b | _ => 0 end.
Definition de32 (l : list Z) : Z := match l with [a; b; c; d] => a * 16777216 + b * 65536 + c * 256 + d | _ => 0 end.

(* binary.BigEndian.Uint16(data[a:a+2]) etc. *)
Definition get16 (l : list Z) (a : Z) : res Z := do s <- slice l a (a + 2); Ok (de16 s).
Definition get32 (l : list Z) (a : Z) : res Z := do s <- slice l a (a + 4); Ok (de32 s).

(* writes into a buffer: buf[i] = v ; PutUintNN(buf[a:a+n], v) ; copy(buf[a:b], src) *)
Fixpoint set_nth (l : list Z) (i : nat) (v : Z) : list Z :=
  match l, i with
  | [], _ => []
  | _ :: r, O => v :: r
  | x :: r, S j => x :: set_nth r j v
  end.
Definition put8 (buf : list Z) (i v : Z) : res (list Z) :=
  if (i <? 0) || (blen buf <=? i) then Panic else Ok (set_nth buf (Z.to_nat i) v).
Fixpoint put_at (buf : list Z) (i : nat) (src : list Z) : list Z :=
  match src with [] => buf | v :: r => put_at (set_nth buf i v) (S i) r end.
(* write all of src at offset a; panics if it does not fit (PutUint panics, slicing panics) *)
Definition put_bytes (buf : list Z) (a : Z) (src : list Z) : res (list Z) :=
  if (a <? 0) || (blen buf <? a + blen src) then Panic else Ok (put_at buf (Z.to_nat a) src).
(* copy(buf[a:], src): copies min(len(buf)-a, len(src)) bytes; slicing buf[a:] panics if a > len *)
Definition copy_from (buf : list Z) (a : Z) (src : list Z) : res (list Z) :=
  if (a <? 0) || (blen buf <? a) then Panic else Ok (put_at buf (Z.to_nat a) (firstn (Z.to_nat (blen buf - a)) src)).

Lemma be16_de16 n : 0 <= n < 65536 -> de16 (be16 n) = n.
Proof. intros H. unfold de16, be16. pose proof (Z.div_mod n 256). assert (0 <= n / 256 < 256) by (split; [apply Z.div_pos|apply Z.div_lt_upper_bound]; lia). rewrite (Z.mod_small (n / 256)) by lia. lia. Qed.

Lemma be32_de32 n : 0 <= n < 4294967296 -> de32 (be32 n) = n.
Proof.
  intros H. unfold de32, be32.
  assert (H1 : n / 16777216 mod 256 = n / 16777216) by (apply Z.mod_small; split; [apply Z.div_pos|apply Z.div_lt_upper_bound]; lia).
  rewrite H1.
  pose proof (Z.div_mod n 256 ltac:(lia)). pose proof (Z.div_mod (n / 256) 256 ltac:(lia)). pose proof (Z.div_mod (n / 256 / 256) 256 ltac:(lia)).
  rewrite Z.div_div in * by lia. change (256 * 256) with 65536 in *. rewrite Z.div_div in * by lia. change (65536 * 256) with 16777216 in *.
  lia.
Qed.

Lemma de16_range l : bytes_ok l -> length l = 2%nat -> 0 <= de16 l < 65536.
Proof.
  intros Hb Hl. destruct l as [|a [|b [|]]]; try discriminate. inversion Hb as [|? ? Ha Hb']; subst. inversion Hb' as [|? ? Hb2 _]; subst.
  unfold de16, byte_ok in *. lia.
Qed.
Lemma de32_range l : bytes_ok l -> length l = 4%nat -> 0 <= de32 l < 4294967296.
Proof.
  intros Hb Hl. destruct l as [|a [|b [|c [|d [|]]]]]; try discriminate.
  inversion Hb as [|? ? Ha H1]; subst. inversion H1 as [|? ? Hbb H2]; subst. inversion H2 as [|? ? Hc H3]; subst. inversion H3 as [|? ? Hd _]; subst.
  unfold de32, byte_ok in *. lia.
Qed.

Lemma slice_ok l a b : 0 <= a -> a <= b -> b <= blen l ->
  slice l a b = Ok (firstn (Z.to_nat (b - a)) (skipn (Z.to_nat a) l)).
Proof.
  intros H1 H2 H3. unfold slice. destruct (a <? 0) eqn:E1; [lia|]. destruct (b <? a) eqn:E2; [lia|]. destruct (blen l <? b) eqn:E3; [lia|]. reflexivity.
Qed.
Lemma slice_not_panic_iff l a b : slice l a b <> Panic <-> (0 <= a /\ a <= b /\ b <= blen l).
Proof.
  unfold slice. destruct (a <? 0) eqn:E1; destruct (b <? a) eqn:E2; destruct (blen l <? b) eqn:E3; simpl; split; intros H; try congruence; try lia; discriminate.
Qed.
Lemma idx_ok l i : 0 <= i < blen l -> idx l i = Ok (nth (Z.to_nat i) l 0).
Proof. intros H. unfold idx. destruct (i <? 0) eqn:E1; [lia|]. destruct (blen l <=? i) eqn:E2; [lia|]. reflexivity. Qed.

Lemma bytes_ok_firstn l n : bytes_ok l -> bytes_ok (firstn n l).
Proof.
  unfold bytes_ok. rewrite !Forall_forall. intros H x Hx. apply H.
  rewrite <- (firstn_skipn n l). apply in_or_app. now left.
Qed.
Lemma bytes_ok_skipn l n : bytes_ok l -> bytes_ok (skipn n l).
Proof.
  unfold bytes_ok. rewrite !Forall_forall. intros H x Hx. apply H.
  rewrite <- (firstn_skipn n l). apply in_or_app. now right.
Qed.
