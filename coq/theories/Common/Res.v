(* Result type used by every model: Go run-time failures are explicit outcomes. *)
From Coq Require Import List.
Import ListNotations.

Inductive res (A : Type) : Type :=
| Ok (a : A)        (* normal return *)
| Err (code : nat)  (* the Go function returned an error (small enum, per model) *)
| Panic             (* Go would panic: index/slice out of range, nil deref, make with bad size *)
| OutOfFuel.        (* model loop ran out of fuel; theorems exclude it explicitly *)
Arguments Ok {A} a.
Arguments Err {A} code.
Arguments Panic {A}.
Arguments OutOfFuel {A}.

Definition bind {A B} (r : res A) (f : A -> res B) : res B :=
  match r with
  | Ok a => f a
  | Err c => Err c
  | Panic => Panic
  | OutOfFuel => OutOfFuel
  end.

Notation "'do' x <- r ; k" := (bind r (fun x => k))
  (at level 200, x pattern, r at level 100, k at level 200, right associativity).

Definition is_ok {A} (r : res A) : bool := match r with Ok _ => true | _ => false end.
Definition is_panic {A} (r : res A) : bool := match r with Panic => true | _ => false end.

Lemma bind_ok_inv {A B} (r : res A) (f : A -> res B) b :
  bind r f = Ok b -> exists a, r = Ok a /\ f a = Ok b.
Proof. destruct r; simpl; intros H; try discriminate; eauto. Qed.
