(* A small regular-expression core: syntax, relational semantics, Brzozowski-derivative matcher and
   their equivalence. Characters are byte codes (Z). Used by Policy/Community*.v (C13). *)
From Coq Require Import List ZArith Bool Lia.
Import ListNotations.
Open Scope Z_scope.

Inductive re :=
| Emp                      (* matches nothing *)
| Eps                      (* the empty string *)
| Chr (c : Z)
| Dig                      (* \d, [0-9] *)
| AnyC                     (* . *)
| Cat (a b : re)
| Alt (a b : re)
| Star (a : re).

Definition is_digit (c : Z) : bool := (48 <=? c) && (c <=? 57).

Inductive Matches : re -> list Z -> Prop :=
| MEps : Matches Eps []
| MChr c : Matches (Chr c) [c]
| MDig c : is_digit c = true -> Matches Dig [c]
| MAny c : Matches AnyC [c]
| MCat a b u v : Matches a u -> Matches b v -> Matches (Cat a b) (u ++ v)
| MAltL a b u : Matches a u -> Matches (Alt a b) u
| MAltR a b u : Matches b u -> Matches (Alt a b) u
| MStar0 a : Matches (Star a) []
| MStarS a u v : Matches a u -> Matches (Star a) v -> Matches (Star a) (u ++ v).

Fixpoint nullable (r : re) : bool :=
  match r with
  | Emp => false | Eps => true | Chr _ => false | Dig => false | AnyC => false
  | Cat a b => nullable a && nullable b
  | Alt a b => nullable a || nullable b
  | Star _ => true
  end.

Fixpoint deriv (c : Z) (r : re) : re :=
  match r with
  | Emp => Emp | Eps => Emp
  | Chr d => if c =? d then Eps else Emp
  | Dig => if is_digit c then Eps else Emp
  | AnyC => Eps
  | Cat a b => if nullable a then Alt (Cat (deriv c a) b) (deriv c b) else Cat (deriv c a) b
  | Alt a b => Alt (deriv c a) (deriv c b)
  | Star a => Cat (deriv c a) (Star a)
  end.

Fixpoint matchb (r : re) (w : list Z) : bool :=
  match w with
  | [] => nullable r
  | c :: w' => matchb (deriv c r) w'
  end.

(* ---- correctness of the matcher ---- *)
Ltac inv H := inversion H; subst; clear H.

Lemma nullable_spec r : nullable r = true <-> Matches r [].
Proof.
  induction r; simpl.
  - split; [discriminate|intros H; inv H].
  - split; [constructor|reflexivity].
  - split; [discriminate|intros H; inv H].
  - split; [discriminate|intros H; inv H].
  - split; [discriminate|intros H; inv H].
  - rewrite andb_true_iff, IHr1, IHr2. split.
    + intros [A B]. change (@nil Z) with (@nil Z ++ []). now constructor.
    + intros H. inv H. match goal with E : _ ++ _ = [] |- _ => apply app_eq_nil in E; destruct E; subst end. auto.
  - rewrite orb_true_iff, IHr1, IHr2. split.
    + intros [A|A]; [now apply MAltL|now apply MAltR].
    + intros H. inv H; auto.
  - split; [constructor|reflexivity].
Qed.

Lemma star_cons_inv a c w : Matches (Star a) (c :: w) ->
  exists u v, w = u ++ v /\ Matches a (c :: u) /\ Matches (Star a) v.
Proof.
  remember (Star a) as r eqn:Er. remember (c :: w) as s eqn:Es. intros H. revert a c w Er Es.
  induction H as [| | | | | | | |a1 u v H1 IH1 H2 IH2]; intros a0 c0 w0 Er Es; try discriminate.
  injection Er as ->. destruct u as [|x u].
  - simpl in Es. apply (IH2 a0 c0 w0 eq_refl Es).
  - simpl in Es. injection Es as -> <-. exists u, v. auto.
Qed.

Lemma cat_cons_inv a b c w : Matches (Cat a b) (c :: w) ->
  (exists u v, w = u ++ v /\ Matches a (c :: u) /\ Matches b v) \/ (Matches a [] /\ Matches b (c :: w)).
Proof.
  intros H. inversion H as [| | | |a' b' u v Hu Hv E1 E2| | | |]; subst.
  destruct u as [|x u].
  - simpl in E2. subst v. right. auto.
  - simpl in E2. injection E2 as -> <-. left. exists u, v. auto.
Qed.

Lemma deriv_spec r : forall c w, Matches (deriv c r) w <-> Matches r (c :: w).
Proof.
  induction r; intros c0 w; simpl.
  - split; intros H; inv H.
  - split; intros H; inv H.
  - destruct (c0 =? c) eqn:E.
    + apply Z.eqb_eq in E. subst. split; intros H; inv H; constructor.
    + apply Z.eqb_neq in E. split; intros H; inv H; congruence.
  - destruct (is_digit c0) eqn:E.
    + split; intros H; inv H; constructor; auto.
    + split; intros H; inv H; congruence.
  - split; intros H; inv H; constructor.
  - destruct (nullable r1) eqn:En.
    + split.
      * intros H. inversion H as [| | | | |a' b' u Hu|a' b' u Hu| |]; subst.
        -- inversion Hu as [| | | |a'' b'' u1 v1 H1 H2| | | |]; subst. apply IHr1 in H1.
           change (c0 :: u1 ++ v1) with ((c0 :: u1) ++ v1). now constructor.
        -- apply IHr2 in Hu. apply nullable_spec in En. change (c0 :: w) with ([] ++ c0 :: w). now constructor.
      * intros H. apply cat_cons_inv in H. destruct H as [(u & v & -> & H1 & H2)|[H1 H2]].
        -- apply MAltL. constructor; [now apply IHr1|assumption].
        -- apply MAltR. now apply IHr2.
    + split.
      * intros H. inversion H as [| | | |a' b' u v H1 H2| | | |]; subst. apply IHr1 in H1.
        change (c0 :: u ++ v) with ((c0 :: u) ++ v). now constructor.
      * intros H. apply cat_cons_inv in H. destruct H as [(u & v & -> & H1 & H2)|[H1 H2]].
        -- constructor; [now apply IHr1|assumption].
        -- apply nullable_spec in H1. congruence.
  - split.
    + intros H. inv H; [apply MAltL; now apply IHr1|apply MAltR; now apply IHr2].
    + intros H. inv H; [apply MAltL; now apply IHr1|apply MAltR; now apply IHr2].
  - split.
    + intros H. inversion H as [| | | |a' b' u v H1 H2| | | |]; subst. apply IHr in H1.
      change (c0 :: u ++ v) with ((c0 :: u) ++ v). now constructor.
    + intros H. apply star_cons_inv in H. destruct H as (u & v & -> & H1 & H2). constructor; [now apply IHr|assumption].
Qed.

Theorem matchb_spec r : forall w, matchb r w = true <-> Matches r w.
Proof.
  intros w. revert r. induction w as [|c w IH]; intros r; simpl.
  - apply nullable_spec.
  - rewrite IH. apply deriv_spec.
Qed.

(* ---- literal strings ---- *)
Fixpoint lit (s : list Z) : re := match s with [] => Eps | c :: r => Cat (Chr c) (lit r) end.

Lemma matches_lit s w : Matches (lit s) w <-> w = s.
Proof.
  revert w. induction s as [|c s IH]; intros w; simpl.
  - split; [intros H; inv H; reflexivity|intros ->; constructor].
  - split.
    + intros H. inversion H as [| | | |a' b' u v H1 H2| | | |]; subst. inv H1. apply IH in H2. subst. reflexivity.
    + intros ->. change (c :: s) with ([c] ++ s). constructor; [constructor|now apply IH].
Qed.

Lemma matches_cat_lit s r w : Matches (Cat (lit s) r) w <-> exists v, w = s ++ v /\ Matches r v.
Proof.
  split.
  - intros H. inversion H as [| | | |a' b' u v H1 H2| | | |]; subst. apply matches_lit in H1. subst. eauto.
  - intros (v & -> & H). constructor; [now apply matches_lit|assumption].
Qed.

Lemma matches_star_any w : Matches (Star AnyC) w.
Proof. induction w as [|c w IH]; [constructor|]. change (c :: w) with ([c] ++ w). constructor; [constructor|assumption]. Qed.

Definition all_digits (w : list Z) : bool := forallb is_digit w.

Lemma matches_star_dig w : Matches (Star Dig) w <-> all_digits w = true.
Proof.
  split.
  - remember (Star Dig) as r eqn:E. induction 1 as [| | | | | | | |a u v H1 IH1 H2 IH2]; try discriminate; [reflexivity|].
    injection E as ->. inv H1. simpl. match goal with D : is_digit _ = true |- _ => rewrite D end. simpl. auto.
  - induction w as [|c w IH]; simpl; [constructor|]. rewrite andb_true_iff. intros [A B].
    change (c :: w) with ([c] ++ w). constructor; [now constructor|auto].
Qed.

Lemma matches_plus_dig w : Matches (Cat Dig (Star Dig)) w <-> w <> [] /\ all_digits w = true.
Proof.
  split.
  - intros H. inversion H as [| | | |a' b' u v H1 H2| | | |]; subst. inv H1. apply matches_star_dig in H2.
    simpl. match goal with D : is_digit _ = true |- _ => rewrite D end. rewrite H2. split; [discriminate|reflexivity].
  - destruct w as [|c w]; [intros [[] _]; reflexivity|]. simpl. rewrite andb_true_iff. intros [_ [A B]].
    change (c :: w) with ([c] ++ w). constructor; [now constructor|now apply matches_star_dig].
Qed.
