(* Decimal rendering (strconv.FormatUint / AppendUint) and parsing (strconv.ParseUint base 10) over
   byte-code strings. *)
From Coq Require Import List ZArith Bool Lia.
From Verif Require Import Common.Regex.
Import ListNotations.
Open Scope Z_scope.

Fixpoint digits (fuel : nat) (n : Z) : list Z :=
  match fuel with
  | O => []
  | S f => if n <? 10 then [48 + n] else digits f (n / 10) ++ [48 + n mod 10]
  end.
(* enough for every value below 10^11 > 2^32 *)
Definition render (n : Z) : list Z := digits 11 n.

Fixpoint parse_digits (s : list Z) (acc : Z) : option Z :=
  match s with
  | [] => Some acc
  | c :: r => if is_digit c then parse_digits r (acc * 10 + (c - 48)) else None
  end.
(* ParseUint(s, 10, bits): digits only, non-empty, value < 2^bits; leading zeros are accepted *)
Definition parse_uint (s : list Z) (bits : Z) : option Z :=
  match s with
  | [] => None
  | _ => match parse_digits s 0 with
         | Some v => if v <? 2 ^ bits then Some v else None
         | None => None
         end
  end.

Fixpoint list_eqb (a b : list Z) : bool :=
  match a, b with
  | [], [] => true
  | x :: a', y :: b' => (x =? y) && list_eqb a' b'
  | _, _ => false
  end.
Lemma list_eqb_eq a : forall b, list_eqb a b = true <-> a = b.
Proof.
  induction a as [|x a IH]; intros [|y b]; simpl.
  - tauto.
  - split; discriminate.
  - split; discriminate.
  - rewrite andb_true_iff, Z.eqb_eq, IH. split; [intros [-> ->]; reflexivity|intros H; injection H; auto].
Qed.

Lemma parse_digits_snoc l : forall acc d, is_digit d = true ->
  parse_digits (l ++ [d]) acc = match parse_digits l acc with Some v => Some (v * 10 + (d - 48)) | None => None end.
Proof.
  induction l as [|c l IH]; intros acc d Hd; simpl.
  - now rewrite Hd.
  - destruct (is_digit c); [now apply IH|reflexivity].
Qed.

Lemma is_digit_48 n : 0 <= n < 10 -> is_digit (48 + n) = true.
Proof. intros H. unfold is_digit. apply andb_true_iff. split; [apply Z.leb_le|apply Z.leb_le]; lia. Qed.

Lemma digits_S f n : digits (S f) n = if n <? 10 then [48 + n] else digits f (n / 10) ++ [48 + n mod 10].
Proof. reflexivity. Qed.

Lemma digits_spec f : forall n, 0 <= n < 10 ^ Z.of_nat (S f) ->
  parse_digits (digits (S f) n) 0 = Some n /\ all_digits (digits (S f) n) = true /\ digits (S f) n <> [].
Proof.
  induction f as [|f IH]; intros n Hn.
  - change (10 ^ Z.of_nat 1) with 10 in Hn. rewrite digits_S.
    assert (E : n <? 10 = true) by (apply Z.ltb_lt; lia). rewrite E.
    unfold all_digits. cbn [parse_digits forallb]. rewrite is_digit_48 by lia. split; [f_equal; lia|]. split; [reflexivity|discriminate].
  - rewrite (digits_S (S f)). destruct (n <? 10) eqn:E.
    + apply Z.ltb_lt in E. unfold all_digits. cbn [parse_digits forallb]. rewrite is_digit_48 by lia. split; [f_equal; lia|]. split; [reflexivity|discriminate].
    + apply Z.ltb_ge in E.
      assert (Hq : 0 <= n / 10 < 10 ^ Z.of_nat (S f)).
      { split; [apply Z.div_pos; lia|]. apply Z.div_lt_upper_bound; [lia|].
        replace (10 * 10 ^ Z.of_nat (S f)) with (10 ^ Z.of_nat (S (S f))); [lia|].
        rewrite (Nat2Z.inj_succ (S f)), Z.pow_succ_r by lia. reflexivity. }
      destruct (IH _ Hq) as (P & D & N).
      assert (Hd : is_digit (48 + n mod 10) = true) by (apply is_digit_48; apply Z.mod_pos_bound; lia).
      split; [|split].
      * rewrite parse_digits_snoc by assumption. rewrite P. f_equal.
        pose proof (Z.div_mod n 10). lia.
      * unfold all_digits in *. rewrite forallb_app, D. cbn [forallb]. now rewrite Hd.
      * destruct (digits (S f) (n / 10)); discriminate.
Qed.

Lemma render_spec n : 0 <= n < 2 ^ 32 ->
  parse_digits (render n) 0 = Some n /\ all_digits (render n) = true /\ render n <> [].
Proof. intros H. apply (digits_spec 10). change (10 ^ Z.of_nat 11) with 100000000000. lia. Qed.

Lemma parse_uint_render n bits : 0 <= n < 2 ^ 32 -> n < 2 ^ bits -> parse_uint (render n) bits = Some n.
Proof.
  intros H Hb. destruct (render_spec n H) as (P & _ & N). unfold parse_uint.
  destruct (render n) eqn:E; [congruence|]. rewrite P.
  destruct (n <? 2 ^ bits) eqn:E2; [reflexivity|]. apply Z.ltb_ge in E2. lia.
Qed.

Lemma render_inj a b : 0 <= a < 2 ^ 32 -> 0 <= b < 2 ^ 32 -> render a = render b -> a = b.
Proof.
  intros Ha Hb E. destruct (render_spec a Ha) as (Pa & _). destruct (render_spec b Hb) as (Pb & _).
  rewrite E in Pa. congruence.
Qed.

(* a parsed value that renders back to the same text: canonical *)
Definition canonical (s : list Z) (n : Z) : bool := list_eqb (render n) s.

Lemma parse_uint_range s bits v : 0 <= bits -> parse_uint s bits = Some v -> 0 <= v < 2 ^ bits.
Proof.
  intros Hb. unfold parse_uint. destruct s as [|c s]; [discriminate|].
  destruct (parse_digits (c :: s) 0) as [x|] eqn:E; [|discriminate].
  destruct (x <? 2 ^ bits) eqn:E2; [|discriminate]. intros H; injection H as <-.
  apply Z.ltb_lt in E2. split; [|assumption].
  assert (G : forall l acc x, 0 <= acc -> parse_digits l acc = Some x -> 0 <= x).
  { induction l as [|d l IH]; intros acc y Ha; simpl; [intros H; injection H as <-; assumption|].
    destruct (is_digit d) eqn:Ed; [|discriminate]. apply IH. unfold is_digit in Ed. apply andb_true_iff in Ed. destruct Ed as [E3 E4].
    apply Z.leb_le in E3, E4. lia. }
  eapply G; [|exact E]. lia.
Qed.
