From Coq Require Import List String ZArith Bool Lia Arith.
From Verif Require Import Generated.C06Table Codec.Errors.
Import ListNotations.
Open Scope string_scope.

Definition max_of (l : list cls) : cls := fold_right cls_max CNone l.

Lemma cls_max_rank a b : rank (cls_max a b) = Nat.max (rank a) (rank b).
Proof. unfold cls_max. destruct (Nat.ltb_spec (rank a) (rank b)); lia. Qed.

Lemma rank_inj a b : rank a = rank b -> a = b.
Proof. destruct a, b; cbn; congruence. Qed.

Lemma strongest_rank l : forall acc, rank (strongest acc l) = Nat.max (rank acc) (rank (max_of l)).
Proof.
  induction l as [|c r IH]; intros acc; cbn [strongest max_of fold_right].
  - cbn. lia.
  - rewrite IH. fold (max_of r). rewrite cls_max_rank.
    destruct (Nat.ltb_spec (rank acc) (rank c)); lia.
Qed.

(* the strongest-error fold keeps exactly the maximum class *)
Lemma strongest_is_max l : strongest CNone l = max_of l.
Proof. apply rank_inj. rewrite strongest_rank. cbn. reflexivity. Qed.

(* the regenerated table agrees with RFC 7606 on every attribute of the catalogue, except that a malformed
   MP_REACH/MP_UNREACH asks for "AFI/SAFI disable", which the speaker does not implement and turns into a reset *)
Lemma table_matches_rfc : forall a, In a catalogue_attrs ->
  handling true (table_class a) = rfc_attr_class a.
Proof.
  intros a H. cbn in H.
  repeat (destruct H as [<-|H]; [vm_compute; reflexivity|]). destruct H.
Qed.

Lemma handling_max revised a b :
  handling revised (cls_max a b) = cls_max (handling revised a) (handling revised b).
Proof. destruct revised, a, b; reflexivity. Qed.

Lemma handling_max_of revised l : handling revised (max_of l) = max_of (map (handling revised) l).
Proof.
  induction l as [|c r IH]; [destruct revised; reflexivity|].
  cbn [max_of fold_right map]. fold (max_of r). fold (max_of (map (handling revised) r)).
  now rewrite handling_max, IH.
Qed.

Definition stage_class (f : fault) : cls :=
  match decode_class f with Some c => c | None => match validate_class f with Some c => c | None => CNone end end.

Lemma max_of_app a b : max_of (a ++ b) = cls_max (max_of a) (max_of b).
Proof.
  induction a as [|c r IH]; cbn [app max_of fold_right].
  - fold (max_of b). apply rank_inj. rewrite cls_max_rank. cbn. lia.
  - fold (max_of (r ++ b)). fold (max_of r). rewrite IH. apply rank_inj. rewrite !cls_max_rank. lia.
Qed.

Lemma cls_max_reset_l c : cls_max CReset c = CReset.
Proof. destruct c; reflexivity. Qed.

Lemma cls_max_comm a b : cls_max a b = cls_max b a.
Proof. apply rank_inj. rewrite !cls_max_rank. lia. Qed.

Lemma cls_max_assoc a b c : cls_max a (cls_max b c) = cls_max (cls_max a b) c.
Proof. apply rank_inj. rewrite !cls_max_rank. lia. Qed.

Lemma cls_max_none_r a : cls_max a CNone = a.
Proof. destruct a; reflexivity. Qed.
Lemma cls_max_none_l a : cls_max CNone a = a.
Proof. destruct a; reflexivity. Qed.

(* both stages together see every fault once *)
Lemma stages_cover revised fs :
  cls_max (max_of (map (handling revised) (keep (map decode_class fs))))
          (max_of (map (handling revised) (keep (map validate_class fs)))) =
  max_of (map (fun f => handling revised (stage_class f)) fs).
Proof.
  induction fs as [|f r IH]; [reflexivity|].
  set (D := max_of (map (handling revised) (keep (map decode_class r)))) in *.
  set (V := max_of (map (handling revised) (keep (map validate_class r)))) in *.
  change (max_of (map (fun f0 => handling revised (stage_class f0)) (f :: r)))
    with (cls_max (handling revised (stage_class f)) (max_of (map (fun f0 => handling revised (stage_class f0)) r))).
  rewrite <- IH. unfold stage_class.
  destruct f as [a|a|a|a| |]; cbn [map keep decode_class validate_class max_of fold_right];
    fold (max_of (map (handling revised) (keep (map decode_class r))));
    fold (max_of (map (handling revised) (keep (map validate_class r)))); fold D; fold V;
    apply rank_inj; rewrite !cls_max_rank; lia.
Qed.

(* the reaction is the strongest class any of the faults calls for (implementation classes) *)
Theorem react_is_strongest revised fs :
  react revised fs = max_of (map (fun f => handling revised (stage_class f)) fs).
Proof.
  unfold react. rewrite !strongest_is_max, !handling_max_of, <- stages_cover.
  destruct (max_of (map (handling revised) (keep (map decode_class fs)))) eqn:E; try reflexivity.
  now rewrite cls_max_reset_l.
Qed.

(* ... and on the catalogue the implementation classes are the RFC classes *)
Lemma stage_class_rfc f : fault_in_catalogue f -> handling true (stage_class f) = rfc_class f.
Proof.
  destruct f as [a|a|a|a| |]; cbn [fault_in_catalogue]; intros H; unfold stage_class; cbn [decode_class validate_class rfc_class];
    try reflexivity.
  - now apply table_matches_rfc.
  - destruct (is_mp a); reflexivity.
Qed.

Theorem react_revised_is_rfc fs :
  Forall fault_in_catalogue fs -> react true fs = max_of (map rfc_class fs).
Proof.
  intros H. rewrite react_is_strongest. f_equal. apply map_ext_in. intros f Hf.
  apply stage_class_rfc. rewrite Forall_forall in H. now apply H.
Qed.

(* without revised error handling every malformed UPDATE resets the session, a well-formed one never *)
Lemma stage_class_not_none f : fault_in_catalogue f -> stage_class f <> CNone.
Proof.
  intros H E. pose proof (stage_class_rfc f H) as R. rewrite E in R. cbn in R.
  destruct f as [a|a|a|a| |]; cbn in R; try discriminate.
  - unfold rfc_attr_class in R. destruct (_ || _); [discriminate|]. destruct (is_mp a); discriminate.
  - destruct (is_mp a); discriminate.
Qed.

Theorem react_unrevised fs :
  Forall fault_in_catalogue fs -> react false fs = match fs with [] => CNone | _ => CReset end.
Proof.
  intros H. rewrite react_is_strongest. destruct fs as [|f r]; [reflexivity|].
  cbn [map max_of fold_right]. inversion H as [|? ? Hf Hr]; subst.
  pose proof (stage_class_not_none f Hf) as N.
  assert (E : handling false (stage_class f) = CReset) by (destruct (stage_class f); cbn; congruence).
  rewrite E. apply cls_max_reset_l.
Qed.

Theorem wellformed_never_penalised revised : react revised [] = CNone.
Proof. reflexivity. Qed.

(* ---- attribute discard removes the malformed attribute and nothing else *)
Lemma kept_exactly fs attrs a : In a (kept_attrs fs attrs) <-> In a attrs /\ own_error fs a <> Some CDiscard.
Proof.
  unfold kept_attrs. rewrite filter_In. unfold stays. split; intros [H1 H2]; split; try exact H1.
  - intros E. rewrite E in H2. discriminate.
  - destruct (own_error fs a) as [[| | | |]|]; try reflexivity. exfalso. apply H2. reflexivity.
Qed.

Lemma kept_wellformed fs attrs a : In a attrs -> own_error fs a = None -> In a (kept_attrs fs attrs).
Proof. intros H E. apply kept_exactly. split; [exact H|rewrite E; discriminate]. Qed.

(* whether an attribute stays does not depend on what stood before it or after it *)
Lemma kept_app fs l1 l2 : kept_attrs fs (l1 ++ l2)%list = (kept_attrs fs l1 ++ kept_attrs fs l2)%list.
Proof. unfold kept_attrs. apply filter_app. Qed.

Lemma kept_all fs attrs : (forall a, In a attrs -> own_error fs a <> Some CDiscard) -> kept_attrs fs attrs = attrs.
Proof.
  induction attrs as [|a r IH]; intros H; [reflexivity|].
  unfold kept_attrs in *. cbn [filter]. unfold stays at 1.
  assert (Ha : own_error fs a <> Some CDiscard) by (apply H; left; reflexivity).
  destruct (own_error fs a) as [[| | | |]|]; try (f_equal; apply IH; intros b Hb; apply H; right; exact Hb).
  exfalso. apply Ha. reflexivity.
Qed.

(* with the class table of the current source: of the catalogue's attributes only ATOMIC_AGGREGATE and AGGREGATOR are
   ever taken off a route *)
Lemma only_aggregate_attributes_are_discarded fs attrs a :
  In a catalogue_attrs -> In a attrs -> ~ In a (kept_attrs fs attrs) ->
  a = "BGP_ATTR_TYPE_ATOMIC_AGGREGATE" \/ a = "BGP_ATTR_TYPE_AGGREGATOR".
Proof.
  intros Hc Ha Hn.
  assert (E : own_error fs a = Some CDiscard).
  { destruct (own_error fs a) as [[| | | |]|] eqn:E; try reflexivity; exfalso; apply Hn; apply kept_exactly; split; try exact Ha; rewrite E; discriminate. }
  unfold own_error in E.
  destruct (existsb _ fs); [discriminate|].
  destruct (existsb _ fs); [|discriminate].
  unfold catalogue_attrs in Hc. cbn [In] in Hc.
  repeat (destruct Hc as [Hc|Hc]; [subst a; try (vm_compute in E; discriminate); auto|]).
  destruct Hc.
Qed.
