(* C14 -- lemmas about Codec.As4Model (the model of the REPAIRED UpdatePathAttrs4ByteAs). *)
From Coq Require Import List NArith ZArith Bool Lia.
From Verif Require Import Common.Res Codec.As4Model.
Import ListNotations.
Open Scope Z_scope.

Arguments len {A} l : simpl never.
Arguments Z.add : simpl never.
Arguments Z.sub : simpl never.
Arguments Z.opp : simpl never.
Arguments Z.ltb : simpl never.
Arguments Z.leb : simpl never.
Arguments seglen s : simpl never.

(* ---------- small facts ---------- *)
Lemma len_nonneg {A} (l : list A) : 0 <= len l.
Proof. unfold len; lia. Qed.
Lemma len_app {A} (l m : list A) : len (l ++ m) = len l + len m.
Proof. unfold len; rewrite app_length; lia. Qed.
Lemma len_map {A B} (f : A -> B) l : len (map f l) = len l.
Proof. unfold len; now rewrite map_length. Qed.
Lemma len_nil {A} : len (@nil A) = 0.
Proof. reflexivity. Qed.
Lemma len_firstn {A} (l : list A) k : 0 <= k <= len l -> len (firstn (Z.to_nat k) l) = k.
Proof. unfold len; intros H; rewrite firstn_length; lia. Qed.
Lemma len_skipn {A} (l : list A) k : 0 <= k <= len l -> len (skipn (Z.to_nat k) l) = len l - k.
Proof. unfold len; intros H; rewrite skipn_length; lia. Qed.

Lemma sumz_app {A} (f : A -> Z) l m : sumz f (l ++ m) = sumz f l + sumz f m.
Proof. induction l as [|x l IH]; simpl; lia. Qed.
Lemma sumz_rev {A} (f : A -> Z) l : sumz f (rev l) = sumz f l.
Proof. induction l as [|x l IH]; simpl; [reflexivity|]. rewrite sumz_app; simpl; lia. Qed.
Lemma sumz_add {A} (f g : A -> Z) l : sumz (fun x => f x + g x) l = sumz f l + sumz g l.
Proof. induction l as [|x l IH]; simpl; lia. Qed.

Definition plen (p : list seg) : Z := sumz seglen p.

Lemma plen_split p : path_aslen p + sumz confedlen p = plen p.
Proof. unfold plen, path_aslen, seglen. now rewrite sumz_add. Qed.

Lemma slice_to_ok {A} (l : list A) k : 0 <= k <= len l -> slice_to l k = Ok (firstn (Z.to_nat k) l).
Proof.
  intros H; unfold slice_to.
  destruct (k <? 0) eqn:E1; [lia|]. destruct (len l <? k) eqn:E2; [lia|]. reflexivity.
Qed.
Lemma slice_from_ok {A} (l : list A) k : 0 <= k <= len l -> slice_from l k = Ok (skipn (Z.to_nat k) l).
Proof.
  intros H; unfold slice_from.
  destruct (k <? 0) eqn:E1; [lia|]. destruct (len l <? k) eqn:E2; [lia|]. reflexivity.
Qed.

(* ---------- validity, unpacked ---------- *)
Lemma seg_valid_inv mx s : seg_valid mx s = true ->
  1 <= fst s <= 4 /\ 1 <= len (snd s) <= 255 /\ Forall (fun a => 0 <= a <= mx) (snd s).
Proof.
  unfold seg_valid; rewrite !andb_true_iff; intros [[[[H1 H2] H3] H4] H5].
  repeat split; try lia.
  rewrite forallb_forall in H5. apply Forall_forall; intros a Ha.
  specialize (H5 a Ha). rewrite andb_true_iff in H5. lia.
Qed.

Lemma seg_valid_shape mx s : seg_valid mx s = true -> seg_shape_ok s = true.
Proof.
  intros H; apply seg_valid_inv in H; destruct H as (_ & H & _).
  unfold seg_shape_ok; rewrite andb_true_iff; lia.
Qed.

Lemma valid_shape_ok mx p : forallb (seg_valid mx) p = true -> shape_ok p = true.
Proof.
  unfold shape_ok; rewrite !forallb_forall; intros H s Hs. eapply seg_valid_shape; eauto.
Qed.

Lemma seglen_cases s : 1 <= fst s <= 4 ->
  (fst s = T_SEQ /\ seglen s = len (snd s)) \/ (fst s = T_CONFED_SEQ /\ seglen s = len (snd s)) \/
  (fst s = T_SET /\ seglen s = 1) \/ (fst s = T_CONFED_SET /\ seglen s = 1).
Proof.
  intros H. unfold seglen, aslen, confedlen, T_SEQ, T_SET, T_CONFED_SEQ, T_CONFED_SET.
  assert (fst s = 1 \/ fst s = 2 \/ fst s = 3 \/ fst s = 4) as [E|[E|[E|E]]] by lia; rewrite E; simpl; lia.
Qed.

Lemma seglen_pos mx s : seg_valid mx s = true -> 1 <= seglen s.
Proof.
  intros H; apply seg_valid_inv in H; destruct H as (Ht & Hl & _).
  destruct (seglen_cases s Ht) as [[_ E]|[[_ E]|[[_ E]|[_ E]]]]; lia.
Qed.

Lemma seglen_nonneg s : 0 <= seglen s.
Proof.
  unfold seglen, aslen, confedlen. pose proof (len_nonneg (snd s)).
  destruct (fst s =? T_SEQ), (fst s =? T_SET), (fst s =? T_CONFED_SET), (fst s =? T_CONFED_SEQ); lia.
Qed.

Lemma plen_nonneg p : 0 <= plen p.
Proof. unfold plen; induction p as [|s p IH]; simpl; [lia|]. pose proof (seglen_nonneg s); lia. Qed.

(* ---------- down ---------- *)
Lemma to2_range a : 0 <= a -> 0 <= to2 a <= 65535.
Proof. unfold to2, is4, AS_TRANS; intros H; destruct (65535 <? a) eqn:E; lia. Qed.

Lemma to2_id a : is4 a = false -> to2 a = a.
Proof. unfold to2; now intros ->. Qed.

Lemma map_to2_id m : existsb is4 m = false -> map to2 m = m.
Proof.
  induction m as [|a m IH]; simpl; [reflexivity|]. rewrite orb_false_iff; intros [H1 H2].
  now rewrite to2_id, IH.
Qed.

Definition down_seg (s : seg) : seg := (fst s, map to2 (snd s)).

Lemma down_seg_valid s : seg_valid 4294967295 s = true -> seg_valid 65535 (down_seg s) = true.
Proof.
  intros H; apply seg_valid_inv in H; destruct H as (Ht & Hl & Hm).
  unfold seg_valid, down_seg; simpl; rewrite len_map.
  rewrite !andb_true_iff; repeat split; try lia.
  rewrite forallb_forall; intros b Hb. apply in_map_iff in Hb; destruct Hb as (a & <- & Ha).
  rewrite Forall_forall in Hm. specialize (Hm a Ha). pose proof (to2_range a). rewrite andb_true_iff; lia.
Qed.

Lemma down_wf p : valid4 p = true ->
  valid2 (fst (down p)) = true /\
  match snd (down p) with
  | Some l => valid4 l = true /\ no_confed l = true /\ l = filter (fun s => negb (is_confed (fst s))) p
  | None => forall s, In s p -> existsb is4 (snd s) = false
  end.
Proof.
  intros Hv. unfold down; simpl. split.
  - unfold valid2, valid4 in *. rewrite forallb_forall in *. intros s Hs.
    apply in_map_iff in Hs; destruct Hs as (s0 & <- & Hs0). apply (down_seg_valid s0). auto.
  - destruct (existsb (fun s => existsb is4 (snd s)) p) eqn:E.
    + repeat split.
      * unfold valid4 in *. rewrite forallb_forall in *. intros s Hs. apply filter_In in Hs. apply Hv, Hs.
      * unfold no_confed. rewrite forallb_forall. intros s Hs. apply filter_In in Hs. apply Hs.
    + intros s Hs. destruct (existsb is4 (snd s)) eqn:E2; [|reflexivity].
      assert (existsb (fun s => existsb is4 (snd s)) p = true) by (apply existsb_exists; eauto). congruence.
Qed.

(* AS_TRANS sits exactly where a member exceeds 65535; everything else is untouched *)
Lemma down_members p :
  fst (down p) = map down_seg p /\
  forall a, to2 a = (if 65535 <? a then AS_TRANS else a).
Proof. split; reflexivity. Qed.

(* ---------- keep ---------- *)
Lemma keep_ok mx ps : forallb (seg_valid mx) ps = true -> forall k, 0 <= k <= plen ps ->
  exists kept, keep ps k = Ok kept /\ shape_ok kept = true /\ plen kept = k.
Proof.
  induction ps as [|p ps IH]; intros Hv k Hk.
  - unfold plen in Hk; simpl in Hk. exists []; simpl. repeat split; unfold plen; simpl; lia.
  - simpl in Hv; rewrite andb_true_iff in Hv; destruct Hv as [Hp Hps].
    cbn [keep]. destruct (k <=? 0) eqn:E0.
    + exists []; repeat split. unfold plen; simpl; lia.
    + destruct (0 <=? k - seglen p) eqn:E1.
      * destruct (IH Hps (k - seglen p)) as (r & Hr & Hs & Hl).
        { unfold plen in *; simpl in Hk; lia. }
        rewrite Hr; simpl. exists (p :: r); repeat split.
        -- simpl. rewrite Hs, (seg_valid_shape _ _ Hp); reflexivity.
        -- unfold plen in *; simpl; lia.
      * pose proof (seg_valid_inv _ _ Hp) as (Ht & Hl & _).
        assert (Hk2 : 0 < k < seglen p) by lia.
        destruct (seglen_cases p Ht) as [[Et E]|[[Et E]|[[Et E]|[Et E]]]]; try lia.
        -- rewrite slice_to_ok by lia. simpl. eexists; split; [reflexivity|]. split.
           ++ unfold shape_ok, seg_shape_ok; simpl. rewrite len_firstn by lia.
              rewrite andb_true_r, andb_true_iff; lia.
           ++ unfold plen; simpl. unfold seglen, aslen, confedlen; simpl. rewrite Et; simpl.
              rewrite len_firstn by lia. lia.
        -- rewrite slice_to_ok by lia. simpl. eexists; split; [reflexivity|]. split.
           ++ unfold shape_ok, seg_shape_ok; simpl. rewrite len_firstn by lia.
              rewrite andb_true_r, andb_true_iff; lia.
           ++ unfold plen; simpl. unfold seglen, aslen, confedlen; simpl. rewrite Et; simpl.
              rewrite len_firstn by lia. lia.
Qed.

Lemma keep_exact mx C rest : forallb (seg_valid mx) C = true -> keep (C ++ rest) (plen C) = Ok C.
Proof.
  induction C as [|c C IH]; intros Hv.
  - simpl. unfold plen; simpl. destruct rest; reflexivity.
  - simpl in Hv; rewrite andb_true_iff in Hv; destruct Hv as [Hc HC].
    pose proof (seglen_pos _ _ Hc). pose proof (plen_nonneg C).
    cbn [app keep]. unfold plen in *; cbn [sumz].
    destruct (seglen c + sumz seglen C <=? 0) eqn:E0; [lia|].
    destruct (0 <=? seglen c + sumz seglen C - seglen c) eqn:E1; [|lia].
    replace (seglen c + sumz seglen C - seglen c) with (sumz seglen C) by lia.
    rewrite (IH HC). reflexivity.
Qed.

(* ---------- merge ---------- *)
Lemma shape_ok_cons s p : shape_ok (s :: p) = seg_shape_ok s && shape_ok p.
Proof. reflexivity. Qed.
Lemma seg_shape_ok_iff s : seg_shape_ok s = true <-> 1 <= len (snd s) <= 255.
Proof. unfold seg_shape_ok; rewrite andb_true_iff; lia. Qed.

Lemma flat_app p q : flat (p ++ q) = flat p ++ flat q.
Proof. unfold flat; now rewrite flat_map_app. Qed.

Lemma flat_seq_app m1 m2 : flat [(T_SEQ, m1 ++ m2)] = flat [(T_SEQ, m1)] ++ flat [(T_SEQ, m2)].
Proof. unfold flat, flat_seg; simpl. rewrite !app_nil_r. now rewrite map_app. Qed.

Lemma seglen_seq m : seglen (T_SEQ, m) = len m.
Proof. unfold seglen, aslen, confedlen; simpl. lia. Qed.

Lemma flat_single p : flat [p] = flat_seg p.
Proof. unfold flat; simpl. apply app_nil_r. Qed.
Lemma flat_snoc l s : flat (l ++ [s]) = flat l ++ flat_seg s.
Proof. now rewrite flat_app, flat_single. Qed.
Lemma flat_seg_seq m : flat_seg (T_SEQ, m) = map IAs m.
Proof. reflexivity. Qed.
Lemma plen_cons s p : plen (s :: p) = seglen s + plen p.
Proof. reflexivity. Qed.

Lemma merge1_ok racc p : shape_ok racc = true -> seg_shape_ok p = true ->
  exists r, merge1 racc p = Ok r /\ shape_ok r = true /\
            flat (rev r) = flat (rev racc) ++ flat [p] /\ plen r = plen racc + seglen p.
Proof.
  intros Hacc Hp. unfold merge1. destruct racc as [|last more].
  - exists [p]. rewrite shape_ok_cons, Hp. repeat split. rewrite plen_cons. unfold plen; simpl; lia.
  - rewrite shape_ok_cons, andb_true_iff in Hacc; destruct Hacc as [Hl Hm].
    rewrite seg_shape_ok_iff in Hl, Hp.
    destruct ((fst p =? T_SEQ) && (fst p =? fst last)) eqn:Et.
    + rewrite andb_true_iff in Et; destruct Et as [E1 E2].
      apply Z.eqb_eq in E1, E2. destruct p as [tp mp], last as [tl ml]; cbn [fst snd] in *. subst tp. symmetry in E2; subst tl.
      destruct (255 <? len ml + len mp) eqn:E3.
      * rewrite slice_to_ok, slice_from_ok by lia. cbn [bind]. eexists; split; [reflexivity|]. repeat split.
        -- rewrite !shape_ok_cons, Hm, andb_true_r, andb_true_iff, !seg_shape_ok_iff; cbn [snd].
           rewrite len_app, len_firstn, len_skipn by lia. lia.
        -- cbn [rev]. rewrite !flat_snoc, flat_single, !flat_seg_seq, <- !app_assoc. f_equal.
           rewrite map_app, <- app_assoc, <- map_app. now rewrite firstn_skipn.
        -- rewrite !plen_cons, !seglen_seq, len_app, len_firstn, len_skipn by lia. lia.
      * eexists; split; [reflexivity|]. repeat split.
        -- rewrite !shape_ok_cons, Hm, andb_true_r, !seg_shape_ok_iff; cbn [snd]. rewrite len_app. lia.
        -- cbn [rev]. rewrite !flat_snoc, flat_single, !flat_seg_seq, <- !app_assoc. f_equal. now rewrite map_app.
        -- rewrite !plen_cons, !seglen_seq, len_app. lia.
    + eexists; split; [reflexivity|]. repeat split.
      * rewrite !shape_ok_cons, Hm, andb_true_r, andb_true_iff, !seg_shape_ok_iff. lia.
      * cbn [rev]. now rewrite !flat_snoc, flat_single.
      * rewrite !plen_cons. lia.
Qed.

Lemma merge_ok ps : forall racc, shape_ok racc = true -> shape_ok ps = true ->
  exists r, merge racc ps = Ok r /\ shape_ok r = true /\
            flat (rev r) = flat (rev racc) ++ flat ps /\ plen r = plen racc + plen ps.
Proof.
  induction ps as [|p ps IH]; intros racc Hacc Hps.
  - exists racc; simpl. repeat split; auto. now rewrite app_nil_r. unfold plen; simpl; lia.
  - simpl in Hps; rewrite andb_true_iff in Hps; destruct Hps as [Hp Hps].
    destruct (merge1_ok racc p Hacc Hp) as (r1 & H1 & Hs1 & Hf1 & Hl1).
    destruct (IH r1 Hs1 Hps) as (r & H2 & Hs2 & Hf2 & Hl2).
    exists r. cbn [merge]. rewrite H1; simpl. rewrite H2. repeat split; auto.
    + rewrite Hf2, Hf1. rewrite <- app_assoc. f_equal. now rewrite flat_single.
    + rewrite plen_cons; lia.
Qed.

(* adjacent SEQUENCE segments are joined only when the first is not full *)
Fixpoint canon (prev : option seg) (ps : list seg) : bool :=
  match ps with
  | [] => true
  | p :: r =>
      match prev with
      | Some q => negb ((fst p =? T_SEQ) && (fst p =? fst q)) || (len (snd q) =? 255)
      | None => true
      end && canon (Some p) r
  end.

Lemma merge_canon ps : forall racc, shape_ok racc = true -> shape_ok ps = true ->
  canon (hd_error racc) ps = true -> merge racc ps = Ok (rev ps ++ racc).
Proof.
  induction ps as [|p ps IH]; intros racc Hacc Hps Hc; [reflexivity|].
  simpl in Hps; rewrite andb_true_iff in Hps; destruct Hps as [Hp Hps].
  cbn [canon] in Hc. rewrite andb_true_iff in Hc; destruct Hc as [Hc1 Hc2].
  cbn [merge]. assert (H1 : merge1 racc p = Ok (p :: racc)).
  { unfold merge1. destruct racc as [|last more]; [reflexivity|]. simpl in Hc1.
    destruct ((fst p =? T_SEQ) && (fst p =? fst last)) eqn:Et; [|reflexivity].
    simpl in Hc1. apply Z.eqb_eq in Hc1.
    rewrite andb_true_iff in Et; destruct Et as [E1 E2]. apply Z.eqb_eq in E1, E2.
    unfold seg_shape_ok in Hp; rewrite andb_true_iff in Hp.
    destruct (255 <? len (snd last) + len (snd p)) eqn:E3; [|lia].
    rewrite Hc1. replace (255 - 255) with 0 by lia.
    rewrite slice_to_ok, slice_from_ok by lia. simpl. rewrite app_nil_r.
    destruct p as [tp mp], last as [tl ml]; simpl in *. now subst. }
  rewrite H1; simpl. rewrite IH; auto.
  - now rewrite <- app_assoc.
  - simpl. now rewrite Hp.
Qed.

(* ---------- up: safety on arbitrary valid pairs ---------- *)
Definition strip_confed (p : list seg) : list seg := filter (fun s => negb (is_confed (fst s))) p.

Lemma strip_valid mx p : forallb (seg_valid mx) p = true -> forallb (seg_valid mx) (strip_confed p) = true.
Proof. rewrite !forallb_forall; intros H s Hs. apply filter_In in Hs. apply H, Hs. Qed.

Lemma no_confed_plen p : no_confed p = true -> path_aslen p = plen p.
Proof.
  unfold no_confed, path_aslen, plen. induction p as [|s p IH]; simpl; [reflexivity|].
  rewrite andb_true_iff; intros [Hs Hp]. rewrite (IH Hp). f_equal.
  unfold seglen, confedlen, is_confed in *. rewrite negb_true_iff, orb_false_iff in Hs. destruct Hs as [H1 H2].
  rewrite H1, H2. destruct (fst s =? T_CONFED_SET); lia.
Qed.

Lemma strip_no_confed p : no_confed (strip_confed p) = true.
Proof. unfold no_confed; rewrite forallb_forall; intros s Hs. apply filter_In in Hs. apply Hs. Qed.

Lemma shape_ok_rev p : shape_ok p = true -> shape_ok (rev p) = true.
Proof. unfold shape_ok; rewrite !forallb_forall; intros H s Hs. apply H. now apply in_rev. Qed.

Theorem up_safe a a4 : valid4 a = true -> valid4 a4 = true ->
  exists q, up a (Some a4) = Ok q /\ shape_ok q = true /\ plen q = plen a /\
            (plen a < plen (strip_confed a4) -> q = a).
Proof.
  intros Ha Ha4. unfold up. fold (strip_confed a4).
  rewrite plen_split. rewrite (no_confed_plen _ (strip_no_confed a4)).
  destruct (plen a <? plen (strip_confed a4)) eqn:E.
  - exists a; repeat split; auto. eapply valid_shape_ok; eauto.
  - pose proof (plen_nonneg (strip_confed a4)).
    destruct (keep_ok _ a Ha (plen a - plen (strip_confed a4))) as (kept & Hk & Hs & Hl); [lia|].
    rewrite Hk; simpl.
    destruct (merge_ok (strip_confed a4) (rev kept)) as (r & Hr & Hsr & _ & Hlr).
    { now apply shape_ok_rev. }
    { eapply valid_shape_ok. apply strip_valid; eauto. }
    rewrite Hr; simpl. exists (rev r); repeat split.
    + now apply shape_ok_rev.
    + unfold plen in *. rewrite sumz_rev, Hlr, sumz_rev. lia.
    + lia.
Qed.

(* ---------- round trip ---------- *)
Definition all_confed (p : list seg) : bool := forallb (fun s => is_confed (fst s)) p.

Lemma mask_confed_confed C : all_confed C = true -> mask_confed C = map down_seg C.
Proof.
  unfold all_confed, mask_confed. induction C as [|c C IH]; simpl; [reflexivity|].
  rewrite andb_true_iff; intros [H1 H2]. now rewrite H1, IH.
Qed.

Lemma mask_confed_plain R : no_confed R = true -> mask_confed R = R.
Proof.
  unfold no_confed, mask_confed. induction R as [|c R IH]; simpl; [reflexivity|].
  rewrite andb_true_iff, negb_true_iff; intros [H1 H2]. now rewrite H1, IH.
Qed.

Lemma mask_confed_app p q : mask_confed (p ++ q) = mask_confed p ++ mask_confed q.
Proof. unfold mask_confed; now rewrite map_app. Qed.

Lemma strip_app p q : strip_confed (p ++ q) = strip_confed p ++ strip_confed q.
Proof. unfold strip_confed; now rewrite filter_app. Qed.

Lemma strip_all_confed C : all_confed C = true -> strip_confed C = [].
Proof.
  unfold all_confed, strip_confed. induction C as [|c C IH]; simpl; [reflexivity|].
  rewrite andb_true_iff; intros [H1 H2]. now rewrite H1, IH.
Qed.

Lemma strip_plain R : no_confed R = true -> strip_confed R = R.
Proof.
  unfold no_confed, strip_confed. induction R as [|c R IH]; simpl; [reflexivity|].
  rewrite andb_true_iff; intros [H1 H2]. now rewrite H1, IH.
Qed.

Lemma seglen_down_seg s : seglen (down_seg s) = seglen s.
Proof. unfold seglen, aslen, confedlen, down_seg; simpl. now rewrite len_map. Qed.

Lemma plen_down p : plen (map down_seg p) = plen p.
Proof. unfold plen; induction p as [|s p IH]; simpl; [reflexivity|]. now rewrite seglen_down_seg, IH. Qed.

Lemma down_valid4 p : valid4 p = true -> valid4 (map down_seg p) = true.
Proof.
  unfold valid4; rewrite !forallb_forall; intros H s Hs. apply in_map_iff in Hs; destruct Hs as (s0 & <- & Hs0).
  pose proof (down_seg_valid s0 (H s0 Hs0)) as Hv. apply seg_valid_inv in Hv; destruct Hv as (Ht & Hl & Hm).
  unfold seg_valid. rewrite !andb_true_iff; repeat split; try lia.
  rewrite forallb_forall; intros a Ha. rewrite Forall_forall in Hm. specialize (Hm a Ha). rewrite andb_true_iff; lia.
Qed.

Lemma down_no4_id p : (forall s, In s p -> existsb is4 (snd s) = false) -> map down_seg p = p.
Proof.
  induction p as [|s p IH]; intros H; simpl; [reflexivity|].
  rewrite IH by (intros; apply H; now right). unfold down_seg. rewrite map_to2_id by (apply H; now left).
  now destruct s.
Qed.

Lemma mask_no4_id p : (forall s, In s p -> existsb is4 (snd s) = false) -> mask_confed p = p.
Proof.
  unfold mask_confed. induction p as [|s p IH]; intros H; simpl; [reflexivity|].
  rewrite IH by (intros; apply H; now right). rewrite map_to2_id by (apply H; now left).
  destruct (is_confed (fst s)); now destruct s.
Qed.

Lemma hd_error_rev_last {A} (l : list A) : hd_error (rev l) = last (map Some l) None.
Proof.
  induction l as [|x l IH] using rev_ind; [reflexivity|].
  rewrite rev_app_distr; simpl. rewrite map_app; simpl. now rewrite last_last.
Qed.

(* The junction between the kept confederation run and the AS4_PATH never joins segments. *)
Lemma canon_after_confed C R : all_confed C = true -> canon None R = true ->
  canon (hd_error (rev (map down_seg C))) R = true.
Proof.
  intros HC HR. destruct R as [|r R]; [reflexivity|].
  destruct (hd_error (rev (map down_seg C))) as [q|] eqn:E; [|exact HR].
  cbn [canon] in *. rewrite andb_true_iff in *. destruct HR as [_ HR]. split; [|exact HR].
  assert (Hq : is_confed (fst q) = true).
  { assert (In q (rev (map down_seg C))) by (destruct (rev (map down_seg C)); simpl in E; [discriminate|injection E as ->; now left]).
    apply in_rev in H. apply in_map_iff in H. destruct H as (c & <- & Hc).
    unfold all_confed in HC. rewrite forallb_forall in HC. apply (HC c Hc). }
  unfold is_confed, T_CONFED_SEQ, T_CONFED_SET, T_SEQ in *.
  destruct (fst r =? 2) eqn:E1; [|reflexivity]. apply Z.eqb_eq in E1.
  destruct (fst r =? fst q) eqn:E2; [|reflexivity]. apply Z.eqb_eq in E2.
  rewrite <- E2, E1 in Hq. discriminate.
Qed.

Theorem roundtrip_ok C R : valid4 (C ++ R) = true -> all_confed C = true -> no_confed R = true ->
  exists q, roundtrip (C ++ R) = Ok q /\
            flat q = flat (mask_confed (C ++ R)) /\
            shape_ok q = true /\
            (canon None R = true -> q = mask_confed (C ++ R)).
Proof.
  intros Hv HC HR. unfold roundtrip.
  pose proof (down_wf _ Hv) as [Hv2 Hd]. destruct (down (C ++ R)) as [a2 a4] eqn:Ed.
  assert (Ea2 : a2 = map down_seg (C ++ R)) by (unfold down in Ed; injection Ed as <- _; reflexivity).
  simpl in Hd, Hv2. destruct a4 as [l|].
  - destruct Hd as (Hl4 & Hlnc & El). fold (strip_confed (C ++ R)) in El.
    rewrite strip_app, (strip_all_confed _ HC), (strip_plain _ HR) in El; simpl in El. subst l.
    unfold up. fold (strip_confed R). rewrite (strip_plain _ HR).
    rewrite plen_split, (no_confed_plen _ HR). subst a2. rewrite plen_down.
    assert (Hpl : plen (C ++ R) = plen C + plen R) by (unfold plen; apply sumz_app). rewrite !Hpl.
    pose proof (plen_nonneg C).
    destruct (plen C + plen R <? plen R) eqn:E; [lia|].
    replace (plen C + plen R - plen R) with (plen (map down_seg C)) by (rewrite plen_down; lia).
    rewrite map_app.
    assert (HvC : valid4 (map down_seg C) = true).
    { apply down_valid4. unfold valid4 in *. rewrite forallb_app, andb_true_iff in Hv. apply Hv. }
    rewrite (keep_exact _ _ _ HvC). simpl.
    assert (HsR : shape_ok R = true).
    { eapply valid_shape_ok. unfold valid4 in Hv. rewrite forallb_app, andb_true_iff in Hv. apply Hv. }
    assert (HsC : shape_ok (rev (map down_seg C)) = true).
    { apply shape_ok_rev. eapply valid_shape_ok; eauto. }
    destruct (merge_ok R _ HsC HsR) as (r & Hr & Hsr & Hfr & _).
    rewrite Hr; simpl. exists (rev r). repeat split.
    + rewrite Hfr, rev_involutive. rewrite mask_confed_app, (mask_confed_confed _ HC), (mask_confed_plain _ HR).
      now rewrite flat_app.
    + now apply shape_ok_rev.
    + intros Hc. rewrite (merge_canon R _ HsC HsR (canon_after_confed _ _ HC Hc)) in Hr.
      injection Hr as <-. rewrite rev_app_distr, !rev_involutive.
      now rewrite mask_confed_app, (mask_confed_confed _ HC), (mask_confed_plain _ HR).
  - simpl. subst a2. rewrite (down_no4_id _ Hd), (mask_no4_id _ Hd).
    exists (C ++ R). repeat split; auto. eapply valid_shape_ok; eauto.
Qed.

(* ---------- AGGREGATOR ---------- *)
Lemma agg_roundtrip a : let '(d2, d4) := down_agg a in up_agg d2 d4 = a.
Proof. destruct a as [x y]; unfold down_agg; simpl. destruct (is4 x); reflexivity. Qed.

Lemma agg_down_wf a : 0 <= fst a <= 4294967295 ->
  0 <= fst (fst (down_agg a)) <= 65535 /\
  (snd (down_agg a) = None <-> fst a <= 65535) /\
  (forall b, snd (down_agg a) = Some b -> b = a /\ fst (fst (down_agg a)) = AS_TRANS).
Proof.
  destruct a as [x y]; unfold down_agg, is4, AS_TRANS; simpl; intros H.
  destruct (65535 <? x) eqn:E; simpl; repeat split; try lia; try discriminate; try congruence.
Qed.
