(* C14 -- executable model of internal/pkg/table/message.go
     UpdatePathAttrs2ByteAs      -> down
     UpdatePathAttrs4ByteAs      -> up
     UpdatePathAggregator2ByteAs -> down_agg
     UpdatePathAggregator4ByteAs -> up_agg
   and pkg/packet/bgp ASLen / validateAsPathValueBytes (segment level).
   Definitions only (no proofs) so that the model still runs when a proof breaks. *)
From Coq Require Import List NArith ZArith Bool.
From Verif Require Import Common.Res.
Import ListNotations.
Open Scope Z_scope.

(* A segment: (type, members).  Types as in bgp.go: SET=1 SEQ=2 CONFED_SEQ=3 CONFED_SET=4. *)
Definition seg := (Z * list Z)%type.
Definition T_SET := 1.
Definition T_SEQ := 2.
Definition T_CONFED_SEQ := 3.
Definition T_CONFED_SET := 4.
Definition AS_TRANS := 23456.

Definition is_confed (t : Z) : bool := (t =? T_CONFED_SEQ) || (t =? T_CONFED_SET).
Definition len {A} (l : list A) : Z := Z.of_nat (length l).

(* As4PathParam.ASLen / AsPathParam.ASLen *)
Definition aslen (s : seg) : Z :=
  if fst s =? T_SEQ then len (snd s)
  else if fst s =? T_SET then 1
  else 0.

Fixpoint sumz {A} (f : A -> Z) (l : list A) : Z :=
  match l with [] => 0 | x :: r => f x + sumz f r end.

Definition path_aslen (p : list seg) : Z := sumz aslen p.

(* the asConfedLen accumulation of UpdatePathAttrs4ByteAs *)
Definition confedlen (s : seg) : Z :=
  if fst s =? T_CONFED_SET then 1
  else if fst s =? T_CONFED_SEQ then len (snd s)
  else 0.

(* ---- down conversion (sending to a 2-octet peer) ---- *)
Definition is4 (a : Z) : bool := 65535 <? a.
Definition to2 (a : Z) : Z := if is4 a then AS_TRANS else a.

Definition down (p : list seg) : list seg * option (list seg) :=
  let as2 := map (fun s => (fst s, map to2 (snd s))) p in
  let mk := existsb (fun s => existsb is4 (snd s)) p in
  let as4 := filter (fun s => negb (is_confed (fst s))) p in
  (as2, if mk then Some as4 else None).

(* ---- reconstruction (receiving as a 4-octet speaker) ---- *)

(* Go: s[:k] on a slice of length len s (cap >= len; we treat k > len as Panic, see DESIGN) *)
Definition slice_to {A} (l : list A) (k : Z) : res (list A) :=
  if (k <? 0) || (len l <? k) then Panic else Ok (firstn (Z.to_nat k) l).
Definition slice_from {A} (l : list A) (k : Z) : res (list A) :=
  if (k <? 0) || (len l <? k) then Panic else Ok (skipn (Z.to_nat k) l).

(* segLen of UpdatePathAttrs4ByteAs: ASLen, except that confederation segments count as in asConfedLen *)
Definition seglen (s : seg) : Z := aslen s + confedlen s.

(* the keepNum loop; result is in source order *)
Fixpoint keep (ps : list seg) (k : Z) : res (list seg) :=
  match ps with
  | [] => Ok []
  | p :: rest =>
      if k <=? 0 then Ok []
      else if 0 <=? k - seglen p then
        do r <- keep rest (k - seglen p); Ok (p :: r)
      else
        do h <- slice_to (snd p) k; Ok [(fst p, h)]
  end.

(* one iteration of the merge loop.  [racc] is newParams REVERSED (head = last element). *)
Definition merge1 (racc : list seg) (p : seg) : res (list seg) :=
  match racc with
  | [] => Ok [p]
  | last :: more =>
      if (fst p =? T_SEQ) && (fst p =? fst last) then
        if 255 <? len (snd last) + len (snd p) then
          do a <- slice_to (snd p) (255 - len (snd last));
          do b <- slice_from (snd p) (255 - len (snd last));
          Ok ((fst p, b) :: (fst p, snd last ++ a) :: more)
        else Ok ((fst p, snd last ++ snd p) :: more)
      else Ok (p :: racc)
  end.

Fixpoint merge (racc : list seg) (ps : list seg) : res (list seg) :=
  match ps with
  | [] => Ok racc
  | p :: rest => do r <- merge1 racc p; merge r rest
  end.

Definition up (asp : list seg) (a4 : option (list seg)) : res (list seg) :=
  match a4 with
  | None => Ok asp
  | Some a4l =>
      let asLen := path_aslen asp in
      let asConfedLen := sumz confedlen asp in
      let as4p := filter (fun s => negb (is_confed (fst s))) a4l in
      let as4Len := path_aslen as4p in
      if asLen + asConfedLen <? as4Len then Ok asp
      else
        do kept <- keep asp (asLen + asConfedLen - as4Len);
        do r <- merge (rev kept) as4p;
        Ok (rev r)
  end.

Definition roundtrip (p : list seg) : res (list seg) :=
  let '(a2, a4) := down p in up a2 a4.

(* ---- AGGREGATOR ---- *)
Definition agg := (Z * Z)%type.   (* (AS, address as a number) *)
Definition down_agg (a : agg) : agg * option agg :=
  if is4 (fst a) then ((AS_TRANS, snd a), Some a) else (a, None).
Definition up_agg (a : agg) (a4 : option agg) : agg :=
  match a4 with None => a | Some b => (fst b, snd a) end.

(* ---- well-formedness (what validateAsPathValueBytes accepts, per segment) ---- *)
Definition seg_valid (maxas : Z) (s : seg) : bool :=
  (1 <=? fst s) && (fst s <=? 4) &&
  (1 <=? len (snd s)) && (len (snd s) <=? 255) &&
  forallb (fun a => (0 <=? a) && (a <=? maxas)) (snd s).
Definition valid4 (p : list seg) : bool := forallb (seg_valid 4294967295) p.
Definition valid2 (p : list seg) : bool := forallb (seg_valid 65535) p.
Definition no_confed (p : list seg) : bool := forallb (fun s => negb (is_confed (fst s))) p.
Definition has_confed (p : list seg) : bool := existsb (fun s => is_confed (fst s)) p.

(* output-side requirement of the property: no empty and no over-long segment *)
Definition seg_shape_ok (s : seg) : bool := (1 <=? len (snd s)) && (len (snd s) <=? 255).
Definition shape_ok (p : list seg) : bool := forallb seg_shape_ok p.

(* 4-octet members inside confed segments cannot be carried by AS4_PATH *)
Definition mask_confed (p : list seg) : list seg :=
  map (fun s => if is_confed (fst s) then (fst s, map to2 (snd s)) else s) p.

(* flattened reading of a path: SEQ members individually, every other segment as a unit *)
Inductive item := IAs (a : Z) | ISeg (t : Z) (m : list Z).
Definition flat_seg (s : seg) : list item :=
  if fst s =? T_SEQ then map IAs (snd s) else [ISeg (fst s) (snd s)].
Definition flat (p : list seg) : list item := flat_map flat_seg p.
