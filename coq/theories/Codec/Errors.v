(* C06 -- model of how a received UPDATE's errors are combined into one reaction:
     pkg/packet/bgp/bgp.go   BGPUpdate.DecodeFromBytes (strongest-error bookkeeping, discard of discard-class attributes,
                             hard errors), getErrorHandlingFromPathAttribute (table regenerated from the source:
                             Generated/C06Table.v), MessageError.Stronger
     pkg/packet/bgp/validate.go ValidateUpdateMsg (duplicates, missing mandatory attributes)
     pkg/server/fsm.go       handlingError, recvMessageWithError, recvMessageloop's UPDATE branch
   over a catalogue of faults.  Definitions only. *)
From Coq Require Import List String ZArith Bool.
From Verif Require Import Generated.C06Table.
Import ListNotations.
Open Scope string_scope.

Inductive cls := CNone | CDiscard | CTaw | CAfi | CReset.
Definition rank (c : cls) : nat :=
  match c with CNone => 0 | CDiscard => 1 | CTaw => 2 | CAfi => 3 | CReset => 4 end.
Definition cls_max (a b : cls) : cls := if Nat.ltb (rank a) (rank b) then b else a.

Definition cls_of_name (s : string) : cls :=
  if String.eqb s "ERROR_HANDLING_ATTRIBUTE_DISCARD" then CDiscard
  else if String.eqb s "ERROR_HANDLING_TREAT_AS_WITHDRAW" then CTaw
  else if String.eqb s "ERROR_HANDLING_AFISAFI_DISABLE" then CAfi
  else if String.eqb s "ERROR_HANDLING_SESSION_RESET" then CReset
  else CNone.

Fixpoint lookup (k : string) (l : list (string * string)) : option string :=
  match l with [] => None | (a, b) :: r => if String.eqb a k then Some b else lookup k r end.
(* getErrorHandlingFromPathAttribute, from the regenerated table *)
Definition table_class (attr : string) : cls :=
  cls_of_name (match lookup attr handling_table with Some v => v | None => handling_default end).

Inductive fault :=
| FAttrMalformed (attr : string)    (* the attribute's own decoder reports an error (length, value) *)
| FAttrFlags (attr : string)        (* the attribute flags contradict the attribute type *)
| FMissing (attr : string)          (* a well-known mandatory attribute is absent *)
| FDuplicate (attr : string)        (* the attribute appears twice *)
| FTotalLen                         (* the total attribute length exceeds the message *)
| FNlri.                            (* an NLRI prefix is longer than 32 bits or truncated *)

Definition is_mp (attr : string) : bool :=
  String.eqb attr "BGP_ATTR_TYPE_MP_REACH_NLRI" || String.eqb attr "BGP_ATTR_TYPE_MP_UNREACH_NLRI".

(* the class each stage of the implementation assigns to a fault; None = that stage does not see it *)
Definition decode_class (f : fault) : option cls :=
  match f with
  | FAttrMalformed a => Some (table_class a)
  | FAttrFlags _ => Some CTaw
  | FTotalLen | FNlri => Some CReset
  | _ => None
  end.
Definition validate_class (f : fault) : option cls :=
  match f with
  | FMissing _ => Some CTaw
  | FDuplicate a => Some (if is_mp a then CReset else CDiscard)
  | _ => None
  end.

(* MessageError.Stronger folded over the errors in detection order: the first of the strongest class is kept *)
Fixpoint strongest (acc : cls) (l : list cls) : cls :=
  match l with [] => acc | c :: r => strongest (if Nat.ltb (rank acc) (rank c) then c else acc) r end.
Fixpoint keep {A} (l : list (option A)) : list A :=
  match l with [] => [] | Some x :: r => x :: keep r | None :: r => keep r end.

(* fsm.handlingError: without revised error handling everything resets; AFI/SAFI disable is not implemented and
   resets as well *)
Definition handling (revised : bool) (c : cls) : cls :=
  match c with
  | CNone => CNone
  | CAfi => CReset
  | _ => if revised then c else CReset
  end.

(* the reaction to an UPDATE carrying the faults fs (in detection order) *)
Definition react (revised : bool) (fs : list fault) : cls :=
  let d := handling revised (strongest CNone (keep (map decode_class fs))) in
  match d with
  | CReset => CReset
  | _ => let v := handling revised (strongest CNone (keep (map validate_class fs))) in cls_max d v
  end.

(* ---- which attributes of the UPDATE stay on the route (BGPUpdate.DecodeFromBytes: an attribute is appended to
   msg.PathAttributes unless ITS OWN decoding error is of the attribute-discard class; the error of one attribute has
   no say on the next). attrs = the attribute types of the UPDATE in arrival order. *)
Definition own_error (fs : list fault) (a : string) : option cls :=
  if existsb (fun f => match f with FAttrFlags b => String.eqb a b | _ => false end) fs then Some CTaw
  else if existsb (fun f => match f with FAttrMalformed b => String.eqb a b | _ => false end) fs then Some (table_class a)
  else None.
Definition stays (fs : list fault) (a : string) : bool :=
  match own_error fs a with Some CDiscard => false | _ => true end.
Definition kept_attrs (fs : list fault) (attrs : list string) : list string := filter (stays fs) attrs.

(* ---- the specification: RFC 7606 (revised) / RFC 4271 class of every fault of the catalogue *)
Definition rfc_attr_class (attr : string) : cls :=
  if String.eqb attr "BGP_ATTR_TYPE_ATOMIC_AGGREGATE" || String.eqb attr "BGP_ATTR_TYPE_AGGREGATOR" then CDiscard
  else if is_mp attr then CReset
  else CTaw.
Definition rfc_class (f : fault) : cls :=
  match f with
  | FAttrMalformed a => rfc_attr_class a
  | FAttrFlags _ => CTaw
  | FMissing _ => CTaw
  | FDuplicate a => if is_mp a then CReset else CDiscard
  | FTotalLen | FNlri => CReset
  end.
(* the attributes a speaker meets on an IPv4-unicast session and the catalogue uses *)
Definition catalogue_attrs : list string :=
  ["BGP_ATTR_TYPE_ORIGIN"; "BGP_ATTR_TYPE_AS_PATH"; "BGP_ATTR_TYPE_NEXT_HOP"; "BGP_ATTR_TYPE_MULTI_EXIT_DISC";
   "BGP_ATTR_TYPE_LOCAL_PREF"; "BGP_ATTR_TYPE_ATOMIC_AGGREGATE"; "BGP_ATTR_TYPE_AGGREGATOR"; "BGP_ATTR_TYPE_COMMUNITIES";
   "BGP_ATTR_TYPE_ORIGINATOR_ID"; "BGP_ATTR_TYPE_CLUSTER_LIST"; "BGP_ATTR_TYPE_MP_REACH_NLRI"; "BGP_ATTR_TYPE_MP_UNREACH_NLRI";
   "BGP_ATTR_TYPE_EXTENDED_COMMUNITIES"; "BGP_ATTR_TYPE_LARGE_COMMUNITY"; "BGP_ATTR_TYPE_AS4_PATH"].
Definition fault_in_catalogue (f : fault) : Prop :=
  match f with
  | FAttrMalformed a | FAttrFlags a | FMissing a | FDuplicate a => In a catalogue_attrs
  | _ => True
  end.
