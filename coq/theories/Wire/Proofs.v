(* C04: round trips and framing agreement of the wire model. *)
From Coq Require Import List ZArith Bool Lia.
From Verif Require Import Common.Res Common.Bytes Wire.Model.
Import ListNotations.
Open Scope Z_scope.

Lemma blen_app (a b : list Z) : blen (a ++ b) = blen a + blen b.
Proof. unfold blen. rewrite app_length. lia. Qed.
Lemma blen_cons x (l : list Z) : blen (x :: l) = 1 + blen l.
Proof. unfold blen. cbn [length]. lia. Qed.
Lemma blen_nonneg (l : list Z) : 0 <= blen l. Proof. unfold blen. lia. Qed.
Lemma blen_be16 n : blen (be16 n) = 2. Proof. reflexivity. Qed.
Lemma blen_be32 n : blen (be32 n) = 4. Proof. reflexivity. Qed.

Lemma take_app a b : take (blen a) (a ++ b) = Some (a, b).
Proof.
  unfold take. rewrite blen_app. pose proof (blen_nonneg a). pose proof (blen_nonneg b).
  destruct (blen a <? 0) eqn:E1; [lia|]. destruct (blen a + blen b <? blen a) eqn:E2; [lia|]. cbn [orb].
  unfold blen. rewrite Nat2Z.id. rewrite firstn_app, Nat.sub_diag, firstn_all. cbn. rewrite app_nil_r.
  rewrite skipn_app, Nat.sub_diag, skipn_all. reflexivity.
Qed.
Lemma take_app_n n a b : n = blen a -> take n (a ++ b) = Some (a, b).
Proof. intros ->. apply take_app. Qed.
Lemma take_all a : take (blen a) a = Some (a, []).
Proof. rewrite <- (app_nil_r a) at 2. apply take_app. Qed.

Definition u32 (x : Z) : Prop := 0 <= x < 4294967296.
Definition byte (x : Z) : Prop := 0 <= x < 256.

(* ---- prefixes *)
Definition pfx_wf (addpath : bool) (p : prefix) : Prop :=
  0 <= pf_len p <= 32 /\ blen (pf_oct p) = octets_of (pf_len p) /\
  mask_last (last_mask (pf_len p)) (pf_oct p) = pf_oct p /\
  (if addpath then u32 (pf_id p) else pf_id p = 0).

Theorem prefix_roundtrip ap p rest :
  pfx_wf ap p -> dec_prefix ap (enc_prefix ap p ++ rest) = Some (p, rest).
Proof.
  intros (Hl & Ho & Hm & Hi). unfold dec_prefix, enc_prefix. destruct p as [id len oct]. cbn [pf_id pf_len pf_oct] in *.
  destruct ap.
  - rewrite <- app_assoc. rewrite (take_app_n 4 (be32 id)) by reflexivity. rewrite be32_de32 by exact Hi.
    cbn [app]. destruct (32 <? len) eqn:E; [lia|]. rewrite (take_app_n (octets_of len) oct) by (symmetry; exact Ho).
    now rewrite Hm.
  - subst id. cbn [app]. destruct (32 <? len) eqn:E; [lia|]. rewrite (take_app_n (octets_of len) oct) by (symmetry; exact Ho).
    now rewrite Hm.
Qed.

Lemma enc_prefix_nonempty ap p : enc_prefix ap p <> [].
Proof. unfold enc_prefix. destruct ap; cbn; [destruct (be32 (pf_id p)) eqn:E; [discriminate E|discriminate]|discriminate]. Qed.

Lemma enc_prefix_len ap p : 1 <= blen (enc_prefix ap p).
Proof.
  unfold enc_prefix. rewrite blen_app, blen_cons. pose proof (blen_nonneg (pf_oct p)).
  pose proof (blen_nonneg (if ap then be32 (pf_id p) else [])). lia.
Qed.

Theorem prefixes_roundtrip ap l : forall fuel,
  Forall (pfx_wf ap) l -> blen (enc_prefixes ap l) <= Z.of_nat fuel ->
  dec_prefixes fuel ap (enc_prefixes ap l) = Some l.
Proof.
  induction l as [|p l IH]; intros fuel Hw Hf.
  - destruct fuel; reflexivity.
  - inversion Hw as [|? ? Hp Hl]; subst. cbn [enc_prefixes] in *.
    pose proof (enc_prefix_len ap p) as L1. rewrite blen_app in Hf.
    destruct fuel as [|fuel]; [pose proof (blen_nonneg (enc_prefixes ap l)); lia|].
    cbn [dec_prefixes]. destruct (enc_prefix ap p ++ enc_prefixes ap l) eqn:E.
    + exfalso. apply (enc_prefix_nonempty ap p). now destruct (enc_prefix ap p).
    + rewrite <- E. rewrite prefix_roundtrip by exact Hp. rewrite IH; [reflexivity|exact Hl|lia].
Qed.

(* the length an NLRI reports is the number of octets it emits *)
Theorem prefix_len_agrees p : pfx_wf false p -> blen (enc_prefix false p) = 1 + octets_of (pf_len p).
Proof. intros (_ & Ho & _). unfold enc_prefix. cbn [app]. rewrite blen_cons. lia. Qed.

(* ---- 32-bit lists and AS_PATH segments *)
Lemma u32s_roundtrip l : forall fuel, Forall u32 l -> (length l <= fuel)%nat -> dec_u32s fuel (enc_u32s l) = Some l.
Proof.
  induction l as [|x l IH]; intros fuel Hw Hf; [destruct fuel; reflexivity|].
  inversion Hw as [|? ? Hx Hl]; subst. destruct fuel as [|fuel]; [cbn in Hf; lia|].
  cbn [enc_u32s dec_u32s]. destruct (be32 x ++ enc_u32s l) eqn:E; [discriminate E|]. rewrite <- E.
  rewrite (take_app_n 4 (be32 x)) by reflexivity. rewrite IH; [|exact Hl|cbn in Hf; lia]. now rewrite be32_de32.
Qed.
Lemma blen_u32s l : blen (enc_u32s l) = 4 * blen l.
Proof. induction l as [|x l IH]; [reflexivity|]. cbn [enc_u32s]. rewrite blen_app, blen_be32, blen_cons, IH. lia. Qed.

Definition seg_wf (s : Z * list Z) : Prop := 1 <= fst s <= 4 /\ blen (snd s) < 256 /\ Forall u32 (snd s).

Lemma segs_roundtrip l : forall fuel, Forall seg_wf l -> (length l <= fuel)%nat -> dec_segs fuel (enc_segs l) = Some l.
Proof.
  induction l as [|[t m] l IH]; intros fuel Hw Hf; [destruct fuel; reflexivity|].
  inversion Hw as [|? ? (Ht & Hm & Hu) Hl]; subst. cbn [fst snd] in *. destruct fuel as [|fuel]; [cbn in Hf; lia|].
  cbn [enc_segs dec_segs]. destruct ((t <? 1) || (4 <? t)) eqn:E; [lia|].
  rewrite (take_app_n (4 * blen m) (enc_u32s m)) by (symmetry; apply blen_u32s).
  rewrite u32s_roundtrip; [|exact Hu|]. 2:{ pose proof (blen_u32s m). unfold blen in *. lia. }
  rewrite IH; [reflexivity|exact Hl|cbn in Hf; lia].
Qed.

Lemma chunk4_concat l : forall fuel, Forall (fun x => blen x = 4) l -> (length l <= fuel)%nat -> chunk4 fuel (concat l) = Some l.
Proof.
  induction l as [|x l IH]; intros fuel Hw Hf; [destruct fuel; reflexivity|].
  inversion Hw as [|? ? Hx Hl]; subst. destruct fuel as [|fuel]; [cbn in Hf; lia|].
  cbn [concat chunk4]. destruct (x ++ concat l) eqn:E.
  - destruct x; [discriminate Hx|discriminate E].
  - rewrite <- E. rewrite (take_app_n 4 x) by (symmetry; exact Hx). rewrite IH; [reflexivity|exact Hl|cbn in Hf; lia].
Qed.

(* ---- attributes *)
Definition attr_wf (a : attr) : Prop :=
  match a with
  | AOrigin v => byte v
  | AAsPath s => Forall seg_wf s
  | ANextHop x => blen x = 4 \/ blen x = 16   (* the decoder takes an IPv6 address in NEXT_HOP too *)
  | AOriginator x => blen x = 4
  | AMed v | ALocalPref v => u32 v
  | AAtomic => True
  | AAggregator asn addr => u32 asn /\ blen addr = 4
  | ACommunities l => Forall u32 l
  | AClusterList l => Forall (fun x => blen x = 4) l
  | AUnknown f t _ => In f [128; 192; 224] /\ byte t /\ ~ (1 <= t <= 10)
  end.

Lemma len_le_blen (l : list Z) : (length l <= Z.to_nat (blen l))%nat.
Proof. unfold blen. rewrite Nat2Z.id. lia. Qed.

Theorem attr_body_roundtrip a : attr_wf a -> dec_attr_body (attr_flags a) (attr_type a) (attr_body a) = Some a.
Proof.
  destruct a as [v|s|x|v|v| |asn addr|l|x|l|f t b]; cbn [attr_wf attr_type attr_body attr_flags]; intros H; unfold dec_attr_body.
  - reflexivity.
  - cbn -[dec_segs enc_segs]. rewrite segs_roundtrip; [reflexivity|exact H|].
    clear H. induction s as [|[t m] s IH]; cbn; [lia|]. rewrite app_length. cbn. lia.
  - destruct H as [H|H]; cbn -[blen]; rewrite H; reflexivity.
  - cbn -[be32 de32 blen]. rewrite blen_be32. cbn -[be32 de32]. now rewrite be32_de32.
  - cbn -[be32 de32 blen]. rewrite blen_be32. cbn -[be32 de32]. now rewrite be32_de32.
  - reflexivity.
  - destruct H as [Ha Hb]. cbn -[be32 de32 blen take]. rewrite (take_app_n 4 (be32 asn)) by reflexivity. rewrite Hb.
    cbn -[be32 de32]. now rewrite be32_de32.
  - cbn -[dec_u32s enc_u32s]. rewrite u32s_roundtrip; [reflexivity|exact H|]. pose proof (blen_u32s l). unfold blen in *. lia.
  - cbn -[blen]. rewrite H. reflexivity.
  - cbn -[chunk4 concat]. rewrite chunk4_concat; [reflexivity|exact H|].
    revert H. induction l as [|x l IH]; intros H; cbn; [lia|]. inversion H as [|? ? Hx Hl]; subst.
    rewrite app_length. specialize (IH Hl). unfold blen in Hx. lia.
  - destruct H as (Hf & Ht & Hn). unfold byte in Ht.
    assert (E : forall k, 1 <= k <= 10 -> (t =? k) = false) by (intros k Hk; apply Z.eqb_neq; lia).
    rewrite !E by lia. f_equal. f_equal. cbn in Hf. destruct Hf as [<-|[<-|[<-|[]]]]; reflexivity.
Qed.

Lemma flags_ok_enc a : attr_wf a -> flags_ok (Z.land (attr_flags a) 239) (attr_type a) = true /\
                                   flags_ok (Z.land (attr_flags a) 239 + 16) (attr_type a) = true /\
                                   Z.testbit (Z.land (attr_flags a) 239) 4 = false /\
                                   Z.testbit (Z.land (attr_flags a) 239 + 16) 4 = true.
Proof.
  destruct a as [v|s|x|v|v| |asn addr|l|x|l|f t b]; intros H; try (vm_compute; auto; fail).
  destruct H as (Hf & Ht & Hn). unfold byte in Ht. cbn [attr_flags attr_type].
  assert (E : (1 <=? t) && (t <=? 10) = false).
  { destruct (1 <=? t) eqn:E1; destruct (t <=? 10) eqn:E2; auto. apply Z.leb_le in E1, E2. lia. }
  unfold flags_ok. rewrite E. cbn in Hf. destruct Hf as [<-|[<-|[<-|[]]]]; vm_compute; auto.
Qed.

Theorem attr_roundtrip a rest :
  attr_wf a -> blen (attr_body a) < 65536 -> dec_attr (enc_attr a ++ rest) = Some (a, rest).
Proof.
  intros Hw Hl. destruct (flags_ok_enc a Hw) as (F1 & F2 & T1 & T2).
  pose proof (attr_body_roundtrip a Hw) as B. pose proof (blen_nonneg (attr_body a)) as Hn.
  assert (Bf : forall f, dec_attr_body f (attr_type a) (attr_body a) = dec_attr_body (attr_flags a) (attr_type a) (attr_body a) \/
                         exists fl t b, a = AUnknown fl t b).
  { intros f. destruct a; try (left; reflexivity). right. eauto. }
  unfold enc_attr. destruct (255 <? blen (attr_body a)) eqn:E.
  - cbn [app]. unfold dec_attr. rewrite F2. cbn [negb]. rewrite T2.
    rewrite <- app_assoc. rewrite (take_app_n 2 (be16 (blen (attr_body a)))) by reflexivity.
    rewrite be16_de16 by lia. rewrite take_app.
    destruct (Bf (Z.land (attr_flags a) 239 + 16)) as [->|(fl & t & b & ->)]; [now rewrite B|].
    cbn [attr_wf] in Hw. destruct Hw as (Hf & Ht & Hnn). unfold byte in Ht.
    cbn [attr_type attr_body attr_flags]. unfold dec_attr_body.
    assert (Et : forall k, 1 <= k <= 10 -> (t =? k) = false) by (intros k Hk; apply Z.eqb_neq; lia).
    rewrite !Et by lia. cbn in Hf. destruct Hf as [<-|[<-|[<-|[]]]]; reflexivity.
  - cbn [app]. unfold dec_attr. rewrite F1. cbn [negb]. rewrite T1. rewrite take_app.
    destruct (Bf (Z.land (attr_flags a) 239)) as [->|(fl & t & b & ->)]; [now rewrite B|].
    cbn [attr_wf] in Hw. destruct Hw as (Hf & Ht & Hnn). unfold byte in Ht.
    cbn [attr_type attr_body attr_flags]. unfold dec_attr_body.
    assert (Et : forall k, 1 <= k <= 10 -> (t =? k) = false) by (intros k Hk; apply Z.eqb_neq; lia).
    rewrite !Et by lia. cbn in Hf. destruct Hf as [<-|[<-|[<-|[]]]]; reflexivity.
Qed.

(* the length an attribute reports is the number of octets it emits (and so the number its decoder consumes) *)
Theorem attr_len_agrees a : blen (enc_attr a) = attr_len a.
Proof.
  unfold enc_attr, attr_len. destruct (255 <? blen (attr_body a)).
  - rewrite !blen_cons, blen_app, blen_be16. lia.
  - rewrite !blen_cons. lia.
Qed.

Lemma enc_attr_len_pos a : 3 <= blen (enc_attr a).
Proof. rewrite attr_len_agrees. unfold attr_len. pose proof (blen_nonneg (attr_body a)). destruct (255 <? _); lia. Qed.

Theorem attrs_roundtrip l : forall fuel,
  Forall (fun a => attr_wf a /\ blen (attr_body a) < 65536) l -> blen (enc_attrs l) <= Z.of_nat fuel ->
  dec_attrs fuel (enc_attrs l) = Some l.
Proof.
  induction l as [|a l IH]; intros fuel Hw Hf; [destruct fuel; reflexivity|].
  inversion Hw as [|? ? (Ha & Hb) Hl]; subst. cbn [enc_attrs] in *. pose proof (enc_attr_len_pos a) as L1.
  rewrite blen_app in Hf. destruct fuel as [|fuel]; [pose proof (blen_nonneg (enc_attrs l)); lia|].
  cbn [dec_attrs]. destruct (enc_attr a ++ enc_attrs l) eqn:E.
  - exfalso. destruct (enc_attr a) eqn:E2; [cbn in L1; lia|discriminate E].
  - rewrite <- E. rewrite attr_roundtrip by assumption. rewrite IH; [reflexivity|exact Hl|lia].
Qed.

(* ---- messages *)
Definition update_wf (ap : bool) (u : update) : Prop :=
  Forall (pfx_wf ap) (u_withdrawn u) /\ Forall (pfx_wf ap) (u_nlri u) /\
  Forall (fun a => attr_wf a /\ blen (attr_body a) < 65536) (u_attrs u) /\
  blen (enc_prefixes ap (u_withdrawn u)) < 65536 /\ blen (enc_attrs (u_attrs u)) < 65536.

Lemma to_nat_blen (l : list Z) : Z.of_nat (length l) = blen l. Proof. reflexivity. Qed.

Theorem update_roundtrip ap u : update_wf ap u -> dec_update ap (enc_update ap u) = Some u.
Proof.
  intros (Hw & Hn & Ha & Lw & La). destruct u as [w a n]. cbn [u_withdrawn u_attrs u_nlri] in *.
  unfold enc_update, dec_update. cbn [u_withdrawn u_attrs u_nlri].
  pose proof (blen_nonneg (enc_prefixes ap w)). pose proof (blen_nonneg (enc_attrs a)).
  rewrite (take_app_n 2 (be16 _)) by reflexivity. rewrite be16_de16 by lia.
  rewrite take_app. rewrite (take_app_n 2 (be16 _)) by reflexivity. rewrite be16_de16 by lia. rewrite take_app.
  rewrite prefixes_roundtrip by (try assumption; rewrite to_nat_blen; lia).
  rewrite attrs_roundtrip by (try assumption; rewrite to_nat_blen; lia).
  rewrite prefixes_roundtrip by (try assumption; rewrite to_nat_blen; lia).
  reflexivity.
Qed.

Definition msg_wf (ap : bool) (m : msg) : Prop :=
  match m with
  | MUpdate u => update_wf ap u
  | MKeepalive => True
  | MNotification c s d => True
  | MRefresh afi dm sf => 0 <= afi < 65536
  end.

Lemma all_ones_marker : all_ones marker = true. Proof. reflexivity. Qed.

(* what Serialize emits under a session's options parses back to the same message under the same options, and the
   header's length field is the number of octets emitted, within the limit of the options *)
Theorem message_roundtrip ext ap m b :
  msg_wf ap m -> enc_msg ext ap m = Some b ->
  dec_msg ap b = Some m /\ blen b = 19 + blen (enc_body ap m) /\ blen b <= max_len ext (msg_type m).
Proof.
  intros Hw He. unfold enc_msg in He.
  destruct (max_len ext (msg_type m) <? 19 + blen (enc_body ap m)) eqn:E; [discriminate|].
  assert (Hb : b = marker ++ be16 (19 + blen (enc_body ap m)) ++ msg_type m :: enc_body ap m) by (injection He; auto).
  clear He. subst b.
  apply Z.ltb_ge in E. pose proof (blen_nonneg (enc_body ap m)) as Hn.
  assert (Hmax : max_len ext (msg_type m) <= 65535) by (unfold max_len; destruct (ext && _); lia).
  split; [|split].
  - unfold dec_msg. rewrite (take_app_n 16 marker) by reflexivity. rewrite all_ones_marker. cbn [negb].
    rewrite (take_app_n 2 (be16 _)) by reflexivity. cbn [app]. rewrite be16_de16 by lia.
    destruct (19 + blen (enc_body ap m) <? 19) eqn:E2; [lia|].
    replace (19 + blen (enc_body ap m) - 19) with (blen (enc_body ap m)) by lia. rewrite take_all.
    destruct m as [u| |c s d|afi dm sf]; cbn [msg_type enc_body].
    + cbn [msg_wf] in Hw. cbn -[dec_update enc_update]. now rewrite update_roundtrip.
    + reflexivity.
    + reflexivity.
    + cbn [msg_wf] in Hw. cbn -[be16 de16 take]. rewrite (take_app_n 2 (be16 afi)) by reflexivity. now rewrite be16_de16.
  - rewrite blen_app, blen_app, blen_cons. change (blen marker) with 16. rewrite blen_be16. lia.
  - rewrite blen_app, blen_app, blen_cons. change (blen marker) with 16. rewrite blen_be16. lia.
Qed.

(* ---- C05 on the model: every byte string is decoded to a value or rejected (totality is by construction); a
   decoded attribute never claims more octets than there were *)
Lemma take_length n l a b : take n l = Some (a, b) -> blen a = n /\ l = a ++ b.
Proof.
  unfold take. destruct ((n <? 0) || (blen l <? n)) eqn:E; [discriminate|]. intros H. injection H as <- <-.
  apply orb_false_iff in E. destruct E as [E1 E2]. apply Z.ltb_ge in E1, E2. split; [|symmetry; apply firstn_skipn].
  unfold blen in *. rewrite firstn_length. lia.
Qed.

Theorem dec_attr_consumes d a rest : dec_attr d = Some (a, rest) -> exists used, d = used ++ rest /\ 3 <= blen used.
Proof.
  unfold dec_attr. destruct d as [|f [|t r]]; try discriminate. destruct (negb (flags_ok f t)); [discriminate|].
  destruct (Z.testbit f 4).
  - destruct (take 2 r) as [[l r2]|] eqn:E1; [|discriminate]. destruct (take (de16 l) r2) as [[b rs]|] eqn:E2; [|discriminate].
    destruct (dec_attr_body f t b); [|discriminate]. intros H. injection H as <- <-.
    apply take_length in E1, E2. destruct E1 as [L1 ->], E2 as [L2 ->].
    exists (f :: t :: l ++ b). split; [cbn; now rewrite <- app_assoc|]. rewrite !blen_cons, blen_app. pose proof (blen_nonneg b). lia.
  - destruct r as [|l r2]; [discriminate|]. destruct (take l r2) as [[b rs]|] eqn:E2; [|discriminate].
    destruct (dec_attr_body f t b); [|discriminate]. intros H. injection H as <- <-.
    apply take_length in E2. destruct E2 as [L2 ->]. exists (f :: t :: l :: b). split; [reflexivity|].
    rewrite !blen_cons. pose proof (blen_nonneg b). lia.
Qed.
