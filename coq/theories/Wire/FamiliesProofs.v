(* C04: the NLRI of the core families round-trips, by family, and reports the length it occupies. *)
From Coq Require Import List ZArith Bool Lia.
From Verif Require Import Common.Res Common.Bytes Wire.Model Wire.Proofs Wire.Families.
Import ListNotations.
Open Scope Z_scope.

(* ---- label words *)
Lemma word_bytes_value w : 0 <= w < 16777216 ->
  (w / 65536 mod 256) * 65536 + (w / 256 mod 256) * 256 + w mod 256 = w.
Proof.
  intros H. pose proof (Z.div_mod w 256 ltac:(lia)). pose proof (Z.div_mod (w / 256) 256 ltac:(lia)).
  assert (E : w / 65536 = w / 256 / 256) by (rewrite Z.div_div by lia; reflexivity).
  rewrite E. rewrite (Z.mod_small (w / 256 / 256)).
  - lia.
  - split; [apply Z.div_pos; [apply Z.div_pos|]; lia|]. apply Z.div_lt_upper_bound; [lia|]. apply Z.div_lt_upper_bound; lia.
Qed.

Definition label_ok (x : Z) : Prop := 0 <= x < 1048576.
(* a label above the bottom whose word is 0x000000 or 0x800000 would read as the withdraw label *)
Definition upper_ok (x : Z) : Prop := x <> 0 /\ x <> 524288.
Definition stack_ok (l : list Z) : Prop := l <> [] /\ Forall label_ok l /\ Forall upper_ok (removelast l).

Lemma dec_labels_words l : forall acc rest,
  stack_ok l -> dec_labels (enc_label_words l ++ rest) acc = Some (acc ++ l).
Proof.
  induction l as [|x l IH]; intros acc rest (Hne & Hl & Hu); [congruence|].
  inversion Hl as [|? ? Hx Hl']; subst.
  assert (Hw : label_word x = x * 16) by (unfold label_word; apply Z.mod_small; unfold label_ok in Hx; lia).
  destruct l as [|y l].
  - cbn [enc_label_words word_bytes app dec_labels]. rewrite Hw.
    rewrite (word_bytes_value (x * 16 + 1)) by (unfold label_ok in Hx; lia).
    unfold WITHDRAW. destruct (x * 16 + 1 =? 8388608) eqn:E1; [lia|]. destruct (x * 16 + 1 =? 0) eqn:E2; [unfold label_ok in Hx; lia|].
    cbn [orb]. replace (Z.odd (x * 16 + 1)) with true.
    + f_equal. f_equal. f_equal. rewrite Z.add_comm, Z.div_add by lia. reflexivity.
    + symmetry. rewrite Z.add_comm, Z.odd_add_mul_2 with (m := x * 8) || idtac.
      replace (x * 16 + 1) with (1 + 2 * (x * 8)) by lia. rewrite Z.odd_add_mul_2. reflexivity.
  - change (enc_label_words (x :: y :: l)) with (word_bytes (label_word x) ++ enc_label_words (y :: l)).
    cbn [word_bytes app dec_labels]. rewrite Hw.
    rewrite (word_bytes_value (x * 16)) by (unfold label_ok in Hx; lia).
    cbn [removelast] in Hu. inversion Hu as [|? ? (Hx0 & Hx5) Hu']; subst.
    unfold WITHDRAW. destruct (x * 16 =? 8388608) eqn:E1; [lia|]. destruct (x * 16 =? 0) eqn:E2; [lia|].
    cbn [orb]. replace (Z.odd (x * 16)) with false.
    + rewrite Z.div_mul by lia. rewrite IH.
      * rewrite <- app_assoc. reflexivity.
      * split; [discriminate|]. split; [exact Hl'|exact Hu'].
    + symmetry. replace (x * 16) with (0 + 2 * (x * 8)) by lia. rewrite Z.odd_add_mul_2. reflexivity.
Qed.

Lemma blen_label_words l : blen (enc_label_words l) = 3 * blen l.
Proof.
  induction l as [|x l IH]; [reflexivity|]. destruct l as [|y l].
  - reflexivity.
  - change (enc_label_words (x :: y :: l)) with (word_bytes (label_word x) ++ enc_label_words (y :: l)).
    rewrite blen_app, IH, !blen_cons. unfold word_bytes. rewrite !blen_cons. change (blen []) with 0. lia.
Qed.

(* the two shapes of a label stack that the library both emits and reads back: the withdraw label alone, or labels
   below 2^20 of which none above the bottom is 0 or 0x80000 *)
Definition labels_wf (l : list Z) : Prop := l = [WITHDRAW] \/ stack_ok l.

Lemma labels_roundtrip l rest : labels_wf l ->
  exists b, enc_labels l = Some b /\ blen b = 3 * blen l /\ dec_labels (b ++ rest) [] = Some l.
Proof.
  intros [->|H].
  - exists [128; 0; 0]. split; [reflexivity|]. split; [reflexivity|]. reflexivity.
  - exists (enc_label_words l). destruct H as (Hne & Hl & Hu). split.
    + unfold enc_labels. destruct l as [|x l]; [congruence|].
      replace (existsb (Z.eqb WITHDRAW) (x :: l)) with false; [reflexivity|].
      symmetry. apply not_true_is_false. intros E. apply existsb_exists in E. destruct E as (y & Hy & Ey).
      apply Z.eqb_eq in Ey. subst y. rewrite Forall_forall in Hl. specialize (Hl _ Hy). unfold label_ok, WITHDRAW in Hl. lia.
    + split; [apply blen_label_words|]. apply (dec_labels_words l [] rest). split; [exact Hne|]. split; assumption.
Qed.

(* ---- route distinguishers: any eight octets *)
Definition rd_wf (d : list Z) : Prop := blen d = 8.
Lemma dec_rd_id d : rd_wf d -> dec_rd d = d.
Proof. reflexivity. Qed.
Lemma rd_wf_len d : rd_wf d -> blen d = 8.
Proof. intros H. exact H. Qed.

(* ---- prefix part *)
Definition pfx_part_wf (alen bits : Z) (oct : list Z) : Prop :=
  0 <= bits <= 8 * alen /\ blen oct = octets_of bits /\ mask_last (last_mask bits) oct = oct.

Lemma octets_of_nonneg bits : 0 <= bits -> 0 <= octets_of bits.
Proof. intros H. unfold octets_of. apply Z.div_pos; lia. Qed.

Lemma dec_pfx_app alen bits oct rest : pfx_part_wf alen bits oct -> dec_pfx (oct ++ rest) bits alen = Some oct.
Proof.
  intros (Hb & Hl & Hm). unfold dec_pfx. rewrite blen_app. pose proof (blen_nonneg rest).
  destruct (blen oct + blen rest <? octets_of bits) eqn:E1; [lia|]. destruct (alen * 8 <? bits) eqn:E2; [lia|].
  rewrite <- Hl. unfold blen. rewrite Nat2Z.id. rewrite firstn_app, Nat.sub_diag, firstn_all. cbn [firstn]. rewrite app_nil_r.
  now rewrite Hm.
Qed.

Lemma skipn_blen_app (a b : list Z) : skipn (Z.to_nat (blen a)) (a ++ b) = b.
Proof. unfold blen. rewrite Nat2Z.id. rewrite skipn_app, Nat.sub_diag, skipn_all. reflexivity. Qed.

(* ---- the NLRI *)
Definition fnlri_wf (k : kind) (alen : Z) (v : fnlri) : Prop :=
  pfx_part_wf alen (f_bits v) (f_oct v) /\
  match k with
  | KPlain => f_labels v = [] /\ f_rd v = [] /\ f_bits v < 256
  | KLabelled => labels_wf (f_labels v) /\ f_rd v = [] /\ 24 * blen (f_labels v) + f_bits v < 256
  | KVpn => labels_wf (f_labels v) /\ rd_wf (f_rd v) /\ 24 * blen (f_labels v) + 64 + f_bits v < 256
  end.

Theorem fnlri_roundtrip k alen v rest : fnlri_wf k alen v ->
  exists b, enc_fnlri k v = Some b /\ blen b = fnlri_len k v /\ dec_fnlri k alen (b ++ rest) = Some (v, blen b).
Proof.
  destruct v as [ls rd bits oct]. intros (Hp & Hk). cbn [f_labels f_rd f_bits f_oct] in *.
  pose proof Hp as (Hb & Hl & Hm). pose proof (blen_nonneg ls) as Hls.
  destruct k.
  - destruct Hk as (-> & -> & Hlt). exists (bits :: oct). split; [reflexivity|]. split; [cbn [fnlri_len f_bits]; rewrite blen_cons; lia|].
    cbn [app dec_fnlri]. rewrite (dec_pfx_app alen bits oct rest Hp). rewrite blen_cons, Hl. reflexivity.
  - destruct Hk as (Hlw & -> & Hlt). destruct (labels_roundtrip ls (oct ++ rest) Hlw) as (lb & He & Hlb & Hd).
    exists ((8 * (3 * blen ls) + bits) mod 256 :: lb ++ oct). split; [cbn [enc_fnlri f_labels f_bits f_oct]; now rewrite He|].
    split; [cbn [fnlri_len f_labels f_bits]; rewrite blen_cons, blen_app; lia|].
    rewrite Z.mod_small by lia. cbn [app dec_fnlri]. rewrite <- app_assoc, Hd.
    replace (8 * (3 * blen ls) + bits - 8 * (3 * blen ls)) with bits by lia.
    destruct (bits <? 0) eqn:E1; [lia|]. rewrite !blen_app. pose proof (blen_nonneg oct). pose proof (blen_nonneg rest).
    destruct (blen lb + (blen oct + blen rest) <? 3 * blen ls) eqn:E2; [lia|].
    rewrite <- Hlb, skipn_blen_app, (dec_pfx_app alen bits oct rest Hp). rewrite blen_cons, blen_app. f_equal. f_equal. lia.
  - destruct Hk as (Hlw & Hrd & Hlt). destruct (labels_roundtrip ls (rd ++ oct ++ rest) Hlw) as (lb & He & Hlb & Hd).
    pose proof (rd_wf_len rd Hrd) as Hr8.
    exists ((8 * (3 * blen ls + 8) + bits) mod 256 :: lb ++ rd ++ oct). split; [cbn [enc_fnlri f_labels f_bits f_oct f_rd]; now rewrite He|].
    split; [cbn [fnlri_len f_labels f_bits]; rewrite blen_cons, !blen_app; lia|].
    rewrite Z.mod_small by lia. cbn [app dec_fnlri]. rewrite <- !app_assoc, Hd.
    destruct (8 * (3 * blen ls + 8) + bits - 8 * (3 * blen ls) <? 0) eqn:E1; [lia|].
    rewrite !blen_app. pose proof (blen_nonneg oct). pose proof (blen_nonneg rest).
    destruct (blen lb + (blen rd + (blen oct + blen rest)) <? 3 * blen ls + 8) eqn:E2; [lia|].
    replace (8 * (3 * blen ls + 8) + bits - 8 * (3 * blen ls + 8)) with bits by lia.
    destruct (bits <? 0) eqn:E3; [lia|].
    rewrite <- Hlb, skipn_blen_app.
    replace 8%nat with (Z.to_nat (blen rd)) by (rewrite Hr8; reflexivity).
    rewrite skipn_blen_app. unfold blen at 1. rewrite Nat2Z.id, firstn_app, Nat.sub_diag, firstn_all. cbn [firstn]. rewrite app_nil_r.
    rewrite (dec_rd_id rd Hrd), (dec_pfx_app alen bits oct rest Hp). rewrite blen_cons, !blen_app. f_equal. f_equal. lia.
Qed.

(* by family: what NLRIFromSlice returns on what Serialize emitted, for each of the ten core families *)
Definition core_family (afi safi : Z) : Prop := (afi = 1 \/ afi = 2) /\ (safi = 1 \/ safi = 2 \/ safi = 4 \/ safi = 128 \/ safi = 129).

Theorem nlri_family_roundtrip afi safi v rest : core_family afi safi ->
  (forall k a, family_kind afi safi = Some (k, a) -> fnlri_wf k a v) ->
  exists k a b, family_kind afi safi = Some (k, a) /\ a = (if afi =? 1 then 4 else 16) /\
                nlri_serialize afi safi v = Some b /\ blen b = fnlri_len k v /\ nlri_from_slice afi safi (b ++ rest) = Some (v, blen b).
Proof.
  intros (Ha & Hs) Hw. unfold nlri_serialize, nlri_from_slice.
  assert (Hk : exists k, family_kind afi safi = Some (k, if afi =? 1 then 4 else 16)).
  { destruct Ha as [->| ->]; destruct Hs as [->|[->|[->|[->| ->]]]]; cbn; eexists; reflexivity. }
  destruct Hk as (k & Hk). rewrite Hk. destruct (fnlri_roundtrip k _ v rest (Hw _ _ Hk)) as (b & He & Hl & Hd).
  exists k, (if afi =? 1 then 4 else 16), b. repeat split; assumption.
Qed.

(* ---- whatever the decoder accepts: the length it reports is the Len() of the value and lies within the buffer *)
Lemma dec_pfx_len d bits alen o : dec_pfx d bits alen = Some o -> octets_of bits <= blen d.
Proof. unfold dec_pfx. destruct (blen d <? octets_of bits) eqn:E; [discriminate|]. intros _. lia. Qed.

Lemma blen_skipn (l : list Z) n : 0 <= n <= blen l -> blen (skipn (Z.to_nat n) l) = blen l - n.
Proof. intros H. unfold blen in *. rewrite skipn_length. lia. Qed.

Lemma some_pair_inv {A B} (a a' : A) (b b' : B) : Some (a, b) = Some (a', b') -> a' = a /\ b' = b.
Proof. intros H. inversion H. auto. Qed.

Theorem dec_fnlri_consumes k alen d v n : bytes_ok d -> dec_fnlri k alen d = Some (v, n) -> n = fnlri_len k v /\ 1 <= n <= blen d.
Proof.
  intros Hd. destruct d as [|bits r]; [cbn [dec_fnlri]; discriminate|]. cbn [dec_fnlri]. rewrite blen_cons. pose proof (blen_nonneg r) as Hr.
  assert (Hb0 : 0 <= bits) by (inversion Hd as [|? ? Hb _]; subst; unfold byte_ok in Hb; lia).
  destruct k.
  - destruct (dec_pfx r bits alen) as [o|] eqn:E; [|discriminate]. intros H. apply some_pair_inv in H. destruct H as (-> & ->). cbn [fnlri_len f_bits].
    apply dec_pfx_len in E. split; [reflexivity|]. pose proof (octets_of_nonneg bits Hb0). lia.
  - destruct (dec_labels r []) as [ls|] eqn:El; [|discriminate]. pose proof (blen_nonneg ls) as Hls.
    destruct (bits - 8 * (3 * blen ls) <? 0) eqn:E1; [discriminate|]. destruct (blen r <? 3 * blen ls) eqn:E2; [discriminate|].
    destruct (dec_pfx _ _ alen) as [o|] eqn:E; [|discriminate]. intros H. apply some_pair_inv in H. destruct H as (-> & ->). cbn [fnlri_len f_labels f_bits].
    apply dec_pfx_len in E. rewrite blen_skipn in E by lia. split; [reflexivity|].
    assert (0 <= octets_of (bits - 8 * (3 * blen ls))) by (apply octets_of_nonneg; lia). lia.
  - destruct (dec_labels r []) as [ls|] eqn:El; [|discriminate]. pose proof (blen_nonneg ls) as Hls.
    destruct (bits - 8 * (3 * blen ls) <? 0) eqn:E1; [discriminate|]. destruct (blen r <? 3 * blen ls + 8) eqn:E2; [discriminate|].
    destruct (bits - 8 * (3 * blen ls + 8) <? 0) eqn:E3; [discriminate|].
    destruct (dec_pfx _ _ alen) as [o|] eqn:E; [|discriminate]. intros H. apply some_pair_inv in H. destruct H as (-> & ->). cbn [fnlri_len f_labels f_bits].
    apply dec_pfx_len in E. split; [reflexivity|].
    assert (0 <= octets_of (bits - 8 * (3 * blen ls + 8))) by (apply octets_of_nonneg; lia).
    assert (Hs : blen (skipn 8 (skipn (Z.to_nat (3 * blen ls)) r)) = blen r - 3 * blen ls - 8).
    { change 8%nat with (Z.to_nat 8). rewrite blen_skipn; [rewrite blen_skipn by lia; lia|]. rewrite blen_skipn by lia. lia. }
    lia.
Qed.

(* ---- whatever the decoder returns is a value the encoder reads back (re-serialising a parsed NLRI is a fixpoint),
   except when a label above the bottom of the returned stack is 0 or 0x80000 (premise labels_wf) *)
Lemma mask_last_idem m l : mask_last m (mask_last m l) = mask_last m l.
Proof.
  induction l as [|x l IH]; [reflexivity|]. destruct l as [|y l].
  - cbn [mask_last]. rewrite <- Z.land_assoc, Z.land_diag. reflexivity.
  - change (mask_last m (x :: y :: l)) with (x :: mask_last m (y :: l)).
    destruct (mask_last m (y :: l)) as [|z r] eqn:E.
    + destruct l; cbn [mask_last] in E; discriminate.
    + change (mask_last m (x :: z :: r)) with (x :: mask_last m (z :: r)). now rewrite IH.
Qed.
Lemma mask_last_length m l : length (mask_last m l) = length l.
Proof.
  induction l as [|x l IH]; [reflexivity|]. destruct l as [|y l]; [reflexivity|].
  change (mask_last m (x :: y :: l)) with (x :: mask_last m (y :: l)). cbn [length]. now rewrite IH.
Qed.

Lemma dec_pfx_wf d bits alen o : 0 <= bits -> dec_pfx d bits alen = Some o -> pfx_part_wf alen bits o.
Proof.
  intros Hb. unfold dec_pfx. destruct (blen d <? octets_of bits) eqn:E1; [discriminate|]. destruct (alen * 8 <? bits) eqn:E2; [discriminate|].
  intros H. injection H as <-. pose proof (octets_of_nonneg bits Hb). split; [lia|]. split.
  - unfold blen in *. rewrite mask_last_length, firstn_length. lia.
  - apply mask_last_idem.
Qed.

Definition rd_canon (d : list Z) : Prop := blen d = 8 /\ dec_rd d = d.
Lemma rd_wf_canon d : rd_wf d -> rd_canon d.
Proof. intros H. split; [now apply rd_wf_len|now apply dec_rd_id]. Qed.
Lemma dec_rd_canon d : blen d = 8 -> rd_canon (dec_rd d).
Proof. intros H. split; [exact H|reflexivity]. Qed.

(* the round trip needs of the RD only that it is canonical *)
Definition fnlri_canon (k : kind) (alen : Z) (v : fnlri) : Prop :=
  pfx_part_wf alen (f_bits v) (f_oct v) /\
  match k with
  | KPlain => f_labels v = [] /\ f_rd v = [] /\ f_bits v < 256
  | KLabelled => labels_wf (f_labels v) /\ f_rd v = [] /\ 24 * blen (f_labels v) + f_bits v < 256
  | KVpn => labels_wf (f_labels v) /\ rd_canon (f_rd v) /\ 24 * blen (f_labels v) + 64 + f_bits v < 256
  end.
Lemma fnlri_wf_canon k alen v : fnlri_wf k alen v -> fnlri_canon k alen v.
Proof. intros (Hp & Hk). split; [exact Hp|]. destruct k; [exact Hk|exact Hk|]. destruct Hk as (A & B & C). split; [exact A|]. split; [now apply rd_wf_canon|exact C]. Qed.

Theorem fnlri_roundtrip_canon k alen v rest : fnlri_canon k alen v ->
  exists b, enc_fnlri k v = Some b /\ blen b = fnlri_len k v /\ dec_fnlri k alen (b ++ rest) = Some (v, blen b).
Proof.
  destruct k; try (intros H; apply fnlri_roundtrip; destruct H as (Hp & Hk); split; assumption).
  destruct v as [ls rd bits oct]. intros (Hp & Hlw & (Hr8 & Hrd) & Hlt). cbn [f_labels f_rd f_bits f_oct] in *.
  pose proof Hp as (Hb & Hl & Hm). pose proof (blen_nonneg ls) as Hls.
  destruct (labels_roundtrip ls (rd ++ oct ++ rest) Hlw) as (lb & He & Hlb & Hd).
  exists ((8 * (3 * blen ls + 8) + bits) mod 256 :: lb ++ rd ++ oct). split; [cbn [enc_fnlri f_labels f_bits f_oct f_rd]; now rewrite He|].
  split; [cbn [fnlri_len f_labels f_bits]; rewrite blen_cons, !blen_app; lia|].
  rewrite Z.mod_small by lia. cbn [app dec_fnlri]. rewrite <- !app_assoc, Hd.
  destruct (8 * (3 * blen ls + 8) + bits - 8 * (3 * blen ls) <? 0) eqn:E1; [lia|].
  rewrite !blen_app. pose proof (blen_nonneg oct). pose proof (blen_nonneg rest).
  destruct (blen lb + (blen rd + (blen oct + blen rest)) <? 3 * blen ls + 8) eqn:E2; [lia|].
  replace (8 * (3 * blen ls + 8) + bits - 8 * (3 * blen ls + 8)) with bits by lia.
  destruct (bits <? 0) eqn:E3; [lia|].
  rewrite <- Hlb, skipn_blen_app.
  replace 8%nat with (Z.to_nat (blen rd)) by (rewrite Hr8; reflexivity).
  rewrite skipn_blen_app. unfold blen at 1. rewrite Nat2Z.id, firstn_app, Nat.sub_diag, firstn_all. cbn [firstn]. rewrite app_nil_r.
  rewrite Hrd, (dec_pfx_app alen bits oct rest Hp). rewrite blen_cons, !blen_app. f_equal. f_equal. lia.
Qed.

Lemma blen_firstn_le (l : list Z) n : (n <= length l)%nat -> blen (firstn n l) = Z.of_nat n.
Proof. intros H. unfold blen. rewrite firstn_length. lia. Qed.

Theorem dec_fnlri_canon k alen d v n : bytes_ok d -> dec_fnlri k alen d = Some (v, n) ->
  (k = KPlain \/ labels_wf (f_labels v)) -> fnlri_canon k alen v.
Proof.
  intros Hd. destruct d as [|bits r]; [cbn [dec_fnlri]; discriminate|]. cbn [dec_fnlri].
  assert (Hb0 : 0 <= bits < 256) by (inversion Hd as [|? ? Hb _]; subst; exact Hb).
  destruct k.
  - destruct (dec_pfx r bits alen) as [o|] eqn:E; [|discriminate]. intros H _. apply some_pair_inv in H. destruct H as (-> & ->).
    split; [cbn [f_bits f_oct]; apply (dec_pfx_wf r); [lia|exact E]|]. cbn [f_labels f_rd f_bits]. repeat split; lia.
  - destruct (dec_labels r []) as [ls|] eqn:El; [|discriminate]. pose proof (blen_nonneg ls) as Hls.
    destruct (bits - 8 * (3 * blen ls) <? 0) eqn:E1; [discriminate|]. destruct (blen r <? 3 * blen ls) eqn:E2; [discriminate|].
    destruct (dec_pfx _ _ alen) as [o|] eqn:E; [|discriminate]. intros H Hl. apply some_pair_inv in H. destruct H as (-> & ->).
    cbn [f_labels f_rd f_bits f_oct] in *. destruct Hl as [Hl|Hl]; [discriminate|].
    split; [cbn [f_bits f_oct]; eapply dec_pfx_wf; [|exact E]; lia|]. cbn [f_labels f_rd f_bits f_oct]. split; [exact Hl|]. split; [reflexivity|lia].
  - destruct (dec_labels r []) as [ls|] eqn:El; [|discriminate]. pose proof (blen_nonneg ls) as Hls.
    destruct (bits - 8 * (3 * blen ls) <? 0) eqn:E1; [discriminate|]. destruct (blen r <? 3 * blen ls + 8) eqn:E2; [discriminate|].
    destruct (bits - 8 * (3 * blen ls + 8) <? 0) eqn:E3; [discriminate|].
    destruct (dec_pfx _ _ alen) as [o|] eqn:E; [|discriminate]. intros H Hl. apply some_pair_inv in H. destruct H as (-> & ->).
    cbn [f_labels f_rd f_bits f_oct] in *. destruct Hl as [Hl|Hl]; [discriminate|].
    split; [cbn [f_bits f_oct]; eapply dec_pfx_wf; [|exact E]; lia|]. cbn [f_labels f_rd f_bits f_oct]. split; [exact Hl|]. split; [|lia].
    apply dec_rd_canon. rewrite blen_firstn_le; [reflexivity|].
    rewrite skipn_length. unfold blen in *. lia.
Qed.

(* parse, serialise, parse again: the same value, and the second serialisation is the first *)
Theorem dec_fnlri_fixpoint k alen d v n rest : bytes_ok d -> dec_fnlri k alen d = Some (v, n) ->
  (k = KPlain \/ labels_wf (f_labels v)) ->
  exists b, enc_fnlri k v = Some b /\ blen b = n /\ dec_fnlri k alen (b ++ rest) = Some (v, n).
Proof.
  intros Hd H Hl. destruct (fnlri_roundtrip_canon k alen v rest (dec_fnlri_canon k alen d v n Hd H Hl)) as (b & He & Hlen & Hdec).
  destruct (dec_fnlri_consumes k alen d v n Hd H) as (Hn & _). exists b. split; [exact He|]. split; [lia|]. rewrite Hdec. f_equal. f_equal. lia.
Qed.

(* the full statement without the premise on the labels is false of the faithful model (and of the code): a stack
   whose upper label is 0 is emitted as 00 00 00 ..., which the decoder reads as the "zero" withdraw label *)
Theorem label_above_bottom_refuted :
  exists v b, enc_fnlri KLabelled v = Some b /\ Forall label_ok (f_labels v) /\ pfx_part_wf 4 (f_bits v) (f_oct v) /\
              dec_fnlri KLabelled 4 b <> Some (v, blen b).
Proof.
  exists (mkF [0; 17] [] 8 [10]). eexists. split; [vm_compute; reflexivity|]. split; [repeat constructor; unfold label_ok; lia|].
  split; [vm_compute; repeat split; discriminate|]. vm_compute. discriminate.
Qed.

(* ---- a whole MP_REACH / MP_UNREACH NLRI field: every element is read back, none is mis-framed by its neighbours *)
Definition entry_wf (ap : bool) (k : kind) (alen : Z) (e : Z * fnlri) : Prop :=
  fnlri_wf k alen (snd e) /\ (if ap then u32 (fst e) else fst e = 0).

Lemma enc_fnlri_nonempty k v b : enc_fnlri k v = Some b -> 1 <= blen b.
Proof.
  destruct k; cbn [enc_fnlri].
  - intros H. injection H as <-. rewrite blen_cons. pose proof (blen_nonneg (f_oct v)). lia.
  - destruct (enc_labels (f_labels v)) as [lb|]; [|discriminate]. intros H. injection H as <-. rewrite blen_cons.
    pose proof (blen_nonneg (lb ++ f_oct v)). lia.
  - destruct (enc_labels (f_labels v)) as [lb|]; [|discriminate]. intros H. injection H as <-. rewrite blen_cons.
    pose proof (blen_nonneg (lb ++ f_rd v ++ f_oct v)). lia.
Qed.

Theorem nlri_list_roundtrip ap k alen l : forall fuel,
  Forall (entry_wf ap k alen) l ->
  exists b, enc_nlri_list ap k l = Some b /\ ((length l <= fuel)%nat -> dec_nlri_list fuel ap k alen b = Some l).
Proof.
  induction l as [|[id v] l IH]; intros fuel Hw.
  - exists []. split; [reflexivity|]. intros _. destruct fuel; reflexivity.
  - inversion Hw as [|? ? (Hv & Hid) Hl]; subst. cbn [fst snd] in *.
    destruct (IH (pred fuel) Hl) as (t & Et & Dt).
    destruct (fnlri_roundtrip k alen v t Hv) as (b & Eb & Lb & Db).
    exists ((if ap then be32 id else []) ++ b ++ t). split; [cbn [enc_nlri_list]; now rewrite Eb, Et|].
    intros Hf. destruct fuel as [|fuel]; [cbn in Hf; lia|]. cbn [pred] in Dt.
    pose proof (enc_fnlri_nonempty k v b Eb) as Hb1.
    assert (Hne : (if ap then be32 id else []) ++ b ++ t <> []).
    { destruct ap; [discriminate|]. cbn [app]. destruct b; [cbn in Hb1; lia|discriminate]. }
    cbn [dec_nlri_list]. destruct ((if ap then be32 id else []) ++ b ++ t) as [|x xs] eqn:E; [congruence|]. rewrite <- E. clear Hne E x xs.
    destruct ap.
    + rewrite (take_app_n 4 (be32 id)) by reflexivity. rewrite be32_de32 by exact Hid. rewrite Db.
      rewrite blen_app. pose proof (blen_nonneg t). destruct (blen b + blen t <? blen b) eqn:E1; [lia|].
      rewrite skipn_blen_app. rewrite Dt by (cbn in Hf; lia). reflexivity.
    + subst id. cbn [app]. rewrite Db.
      rewrite blen_app. pose proof (blen_nonneg t). destruct (blen b + blen t <? blen b) eqn:E1; [lia|].
      rewrite skipn_blen_app. rewrite Dt by (cbn in Hf; lia). reflexivity.
Qed.
