(* C04 / C05 -- executable byte-level model of the BGP message framing of pkg/packet/bgp/bgp.go:
     BGPHeader, BGPMessage.Serialize / ParseBGPMessage / ParseBGPBody, BGPUpdate (withdrawn routes, path attribute TLVs
     with the extended-length rule, NLRI), IPAddrPrefix (IPv4, optional ADD-PATH identifier), the bodies of ORIGIN,
     AS_PATH (4-octet), NEXT_HOP, MULTI_EXIT_DISC, LOCAL_PREF, ATOMIC_AGGREGATE, AGGREGATOR (4-octet), COMMUNITIES,
     ORIGINATOR_ID, CLUSTER_LIST and opaque (unknown) attributes, KEEPALIVE, NOTIFICATION, ROUTE-REFRESH.
   Byte strings are lists of Z in [0,256).  Decoders are total: they return None where the Go decoder reports an error.
   Definitions only. *)
From Coq Require Import List ZArith Bool.
From Verif Require Import Common.Res Common.Bytes.
Import ListNotations.
Open Scope Z_scope.

Definition take (n : Z) (l : list Z) : option (list Z * list Z) :=
  if (n <? 0) || (blen l <? n) then None else Some (firstn (Z.to_nat n) l, skipn (Z.to_nat n) l).

(* ---- IPv4 prefix NLRI *)
Record prefix := mkPfx { pf_id : Z; pf_len : Z; pf_oct : list Z }.   (* path identifier (0 without ADD-PATH), bits, octets *)
Definition octets_of (bits : Z) : Z := (bits + 7) / 8.
Definition last_mask (bits : Z) : Z := let r := bits mod 8 in if r =? 0 then 255 else Z.land (Z.shiftr 65280 r) 255.
Fixpoint mask_last (m : Z) (o : list Z) : list Z :=
  match o with [] => [] | [x] => [Z.land x m] | x :: r => x :: mask_last m r end.

Definition enc_prefix (addpath : bool) (p : prefix) : list Z :=
  (if addpath then be32 (pf_id p) else []) ++ pf_len p :: pf_oct p.
Definition dec_prefix (addpath : bool) (d : list Z) : option (prefix * list Z) :=
  match (if addpath then match take 4 d with Some (i, r) => Some (de32 i, r) | None => None end else Some (0, d)) with
  | None => None
  | Some (id, d1) =>
      match d1 with
      | [] => None
      | l :: r =>
          if 32 <? l then None
          else match take (octets_of l) r with
               | Some (o, rest) => Some (mkPfx id l (mask_last (last_mask l) o), rest)
               | None => None
               end
      end
  end.
Fixpoint enc_prefixes (addpath : bool) (l : list prefix) : list Z :=
  match l with [] => [] | p :: r => enc_prefix addpath p ++ enc_prefixes addpath r end.
(* decode a block that must be consumed exactly; fuel = number of octets bounds the number of prefixes *)
Fixpoint dec_prefixes (fuel : nat) (addpath : bool) (d : list Z) : option (list prefix) :=
  match d with
  | [] => Some []
  | _ => match fuel with
         | O => None
         | S f => match dec_prefix addpath d with
                  | Some (p, rest) => match dec_prefixes f addpath rest with Some l => Some (p :: l) | None => None end
                  | None => None
                  end
         end
  end.

(* ---- path attributes *)
Inductive attr :=
| AOrigin (v : Z)
| AAsPath (segs : list (Z * list Z))         (* (segment type, 4-octet members) *)
| ANextHop (a : list Z)
| AMed (v : Z) | ALocalPref (v : Z) | AAtomic
| AAggregator (asn : Z) (addr : list Z)
| ACommunities (l : list Z)
| AOriginator (a : list Z)
| AClusterList (l : list (list Z))
| AUnknown (flags typ : Z) (body : list Z).

Definition attr_type (a : attr) : Z :=
  match a with
  | AOrigin _ => 1 | AAsPath _ => 2 | ANextHop _ => 3 | AMed _ => 4 | ALocalPref _ => 5 | AAtomic => 6 | AAggregator _ _ => 7
  | ACommunities _ => 8 | AOriginator _ => 9 | AClusterList _ => 10 | AUnknown _ t _ => t
  end.
(* PathAttrFlags: well-known transitive 0x40, optional non-transitive 0x80, optional transitive 0xc0 *)
Definition attr_flags (a : attr) : Z :=
  match a with
  | AOrigin _ | AAsPath _ | ANextHop _ | ALocalPref _ | AAtomic => 64
  | AMed _ | AOriginator _ | AClusterList _ => 128
  | AAggregator _ _ | ACommunities _ => 192
  | AUnknown f _ _ => f
  end.

Fixpoint enc_u32s (l : list Z) : list Z := match l with [] => [] | x :: r => be32 x ++ enc_u32s r end.
Fixpoint enc_segs (s : list (Z * list Z)) : list Z :=
  match s with [] => [] | (t, m) :: r => t :: blen m :: enc_u32s m ++ enc_segs r end.
Definition attr_body (a : attr) : list Z :=
  match a with
  | AOrigin v => [v]
  | AAsPath s => enc_segs s
  | ANextHop x => x
  | AMed v | ALocalPref v => be32 v
  | AAtomic => []
  | AAggregator asn addr => be32 asn ++ addr
  | ACommunities l => enc_u32s l
  | AOriginator x => x
  | AClusterList l => concat l
  | AUnknown _ _ b => b
  end.
(* the extended-length bit is chosen from the value length at serialisation time *)
Definition enc_attr (a : attr) : list Z :=
  let b := attr_body a in
  let f := Z.land (attr_flags a) 239 in             (* clear 0x10 *)
  if 255 <? blen b then (f + 16) :: attr_type a :: be16 (blen b) ++ b
  else f :: attr_type a :: blen b :: b.
Definition attr_len (a : attr) : Z :=
  let n := blen (attr_body a) in (if 255 <? n then 4 else 3) + n.

Fixpoint dec_u32s (fuel : nat) (d : list Z) : option (list Z) :=
  match d with
  | [] => Some []
  | _ => match fuel with
         | O => None
         | S f => match take 4 d with
                  | Some (x, r) => match dec_u32s f r with Some l => Some (de32 x :: l) | None => None end
                  | None => None
                  end
         end
  end.
Fixpoint dec_segs (fuel : nat) (d : list Z) : option (list (Z * list Z)) :=
  match d with
  | [] => Some []
  | t :: n :: r =>
      match fuel with
      | O => None
      | S f => if (t <? 1) || (4 <? t) then None else        (* segment type must be SET / SEQUENCE / CONFED_SEQUENCE / CONFED_SET *)
               match take (4 * n) r with
               | Some (m, rest) =>
                   match dec_u32s (length m) m, dec_segs f rest with
                   | Some ms, Some l => Some ((t, ms) :: l)
                   | _, _ => None
                   end
               | None => None
               end
      end
  | _ => None
  end.
Fixpoint chunk4 (fuel : nat) (d : list Z) : option (list (list Z)) :=
  match d with
  | [] => Some []
  | _ => match fuel with
         | O => None
         | S f => match take 4 d with
                  | Some (x, r) => match chunk4 f r with Some l => Some (x :: l) | None => None end
                  | None => None
                  end
         end
  end.

Definition dec_attr_body (flags typ : Z) (b : list Z) : option attr :=
  if typ =? 1 then (match b with [v] => Some (AOrigin v) | _ => None end)
  else if typ =? 2 then option_map AAsPath (dec_segs (length b) b)
  else if typ =? 3 then (if (blen b =? 4) || (blen b =? 16) then Some (ANextHop b) else None)
  else if typ =? 4 then (if blen b =? 4 then Some (AMed (de32 b)) else None)
  else if typ =? 5 then (if blen b =? 4 then Some (ALocalPref (de32 b)) else None)
  else if typ =? 6 then (match b with [] => Some AAtomic | _ => None end)
  else if typ =? 7 then (match take 4 b with Some (x, r) => if blen r =? 4 then Some (AAggregator (de32 x) r) else None | None => None end)
  else if typ =? 8 then option_map ACommunities (dec_u32s (length b) b)
  else if typ =? 9 then (if blen b =? 4 then Some (AOriginator b) else None)
  else if typ =? 10 then option_map AClusterList (chunk4 (length b) b)
  else Some (AUnknown (Z.land flags 239) typ b).

(* validatePathAttributeFlags *)
Definition flags_ok (f t : Z) : bool :=
  let opt := Z.testbit f 7 in let trans := Z.testbit f 6 in let part := Z.testbit f 5 in
  negb (negb opt && negb trans) && negb (negb opt && part) && negb (opt && negb trans && part) &&
  (if (1 <=? t) && (t <=? 10)
   then Z.land f 207 =? (if (t =? 4) || (t =? 9) || (t =? 10) then 128 else if (t =? 7) || (t =? 8) then 192 else 64)
   else true).

Definition dec_attr (d : list Z) : option (attr * list Z) :=
  match d with
  | f :: t :: r =>
      if negb (flags_ok f t) then None else
      let ext := Z.testbit f 4 in
      match (if ext then match take 2 r with Some (l, r2) => Some (de16 l, r2) | None => None end
             else match r with l :: r2 => Some (l, r2) | [] => None end) with
      | Some (n, r2) =>
          match take n r2 with
          | Some (b, rest) => match dec_attr_body f t b with Some a => Some (a, rest) | None => None end
          | None => None
          end
      | None => None
      end
  | _ => None
  end.
Fixpoint enc_attrs (l : list attr) : list Z := match l with [] => [] | a :: r => enc_attr a ++ enc_attrs r end.
Fixpoint dec_attrs (fuel : nat) (d : list Z) : option (list attr) :=
  match d with
  | [] => Some []
  | _ => match fuel with
         | O => None
         | S f => match dec_attr d with
                  | Some (a, rest) => match dec_attrs f rest with Some l => Some (a :: l) | None => None end
                  | None => None
                  end
         end
  end.

(* ---- messages *)
Record update := mkU { u_withdrawn : list prefix; u_attrs : list attr; u_nlri : list prefix }.
Inductive msg :=
| MUpdate (u : update)
| MKeepalive
| MNotification (code sub : Z) (data : list Z)
| MRefresh (afi demarc safi : Z).

Definition enc_update (addpath : bool) (u : update) : list Z :=
  let w := enc_prefixes addpath (u_withdrawn u) in
  let a := enc_attrs (u_attrs u) in
  be16 (blen w) ++ w ++ be16 (blen a) ++ a ++ enc_prefixes addpath (u_nlri u).
Definition dec_update (addpath : bool) (d : list Z) : option update :=
  match take 2 d with
  | Some (wl, d1) =>
      match take (de16 wl) d1 with
      | Some (w, d2) =>
          match take 2 d2 with
          | Some (al, d3) =>
              match take (de16 al) d3 with
              | Some (a, n) =>
                  match dec_prefixes (length w) addpath w, dec_attrs (length a) a, dec_prefixes (length n) addpath n with
                  | Some ws, Some ats, Some ns => Some (mkU ws ats ns)
                  | _, _, _ => None
                  end
              | None => None
              end
          | None => None
          end
      | None => None
      end
  | None => None
  end.

Definition msg_type (m : msg) : Z := match m with MUpdate _ => 2 | MNotification _ _ _ => 3 | MKeepalive => 4 | MRefresh _ _ _ => 5 end.
Definition enc_body (addpath : bool) (m : msg) : list Z :=
  match m with
  | MUpdate u => enc_update addpath u
  | MKeepalive => []
  | MNotification c s d => c :: s :: d
  | MRefresh afi dm safi => be16 afi ++ [dm; safi]
  end.
Definition marker : list Z := repeat 255 16.
(* BGPMessage.Serialize: refuses a message above the limit (4096, or 65535 with extended messages for UPDATE /
   NOTIFICATION / ROUTE-REFRESH) *)
Definition max_len (ext : bool) (t : Z) : Z := if ext && ((t =? 2) || (t =? 3) || (t =? 5)) then 65535 else 4096.
Definition enc_msg (ext addpath : bool) (m : msg) : option (list Z) :=
  let b := enc_body addpath m in
  let n := 19 + blen b in
  if max_len ext (msg_type m) <? n then None else Some (marker ++ be16 n ++ msg_type m :: b).
Definition all_ones (l : list Z) : bool := forallb (Z.eqb 255) l.
Definition dec_msg (addpath : bool) (d : list Z) : option msg :=
  match take 16 d with
  | Some (mk, d1) =>
      if negb (all_ones mk) then None else
      match take 2 d1 with
      | Some (l, d2) =>
          match d2 with
          | t :: rest =>
              if de16 l <? 19 then None
              else match take (de16 l - 19) rest with      (* octets beyond the declared length are not looked at *)
                   | None => None
                   | Some (body, _) =>
                       if t =? 2 then option_map MUpdate (dec_update addpath body)
                       else if t =? 4 then (match body with [] => Some MKeepalive | _ => None end)
                       else if t =? 3 then (match body with c :: s :: dt => Some (MNotification c s dt) | _ => None end)
                       else if t =? 5 then (match take 2 body with Some (a, dm :: sf :: _) => Some (MRefresh (de16 a) dm sf) | _ => None end)
                       else None
                   end
          | [] => None
          end
      | None => None
      end
  | None => None
  end.
