(* C04 -- the NLRI of the "core" address families of pkg/packet/bgp/bgp.go, by family: IPAddrPrefix (IPv4/IPv6 unicast
   and multicast), LabeledIPAddrPrefix (IPv4/IPv6 labelled unicast) and LabeledVPNIPAddrPrefix (IPv4/IPv6 VPN and
   multicast VPN), with MPLSLabelStack (bottom-of-stack bit, the 0x800000 withdraw label and the 0x000000 "zero" label
   that some platforms use as withdraw label), GetRouteDistinguisher and
   IPAddrPrefixDefault.decodePrefix (address length by family, trailing bits cleared); the dispatch of NLRIFromSlice.
   Decoders return None where the Go decoder reports an error; the Z beside a decoded value is the Len() it reports, which
   is what the MP_REACH / MP_UNREACH loops advance by.  Definitions only. *)
From Coq Require Import List ZArith Bool.
From Verif Require Import Common.Res Common.Bytes Wire.Model.
Import ListNotations.
Open Scope Z_scope.

Inductive kind := KPlain | KLabelled | KVpn.

(* (AFI, SAFI) -> NLRI kind and address length, as NLRIFromSlice dispatches *)
Definition family_kind (afi safi : Z) : option (kind * Z) :=
  let alen := if afi =? 1 then Some 4 else if afi =? 2 then Some 16 else None in
  match alen with
  | None => None
  | Some a =>
      if (safi =? 1) || (safi =? 2) then Some (KPlain, a)
      else if safi =? 4 then Some (KLabelled, a)
      else if (safi =? 128) || (safi =? 129) then Some (KVpn, a)
      else None
  end.

(* labels: label values (Go: []uint32); rd: the eight octets; bits/oct: the IP prefix *)
Record fnlri := mkF { f_labels : list Z; f_rd : list Z; f_bits : Z; f_oct : list Z }.

Definition WITHDRAW : Z := 8388608.     (* 0x800000 *)

(* ---- MPLSLabelStack *)
Definition label_word (l : Z) : Z := (l * 16) mod 16777216.      (* uint32 label << 4, the three low octets are emitted *)
Definition word_bytes (w : Z) : list Z := [w / 65536 mod 256; w / 256 mod 256; w mod 256].
Fixpoint enc_label_words (l : list Z) : list Z :=
  match l with
  | [] => []
  | [x] => word_bytes (label_word x + 1)        (* buf[len-1] |= 1: the low nibble of a shifted label is zero *)
  | x :: r => word_bytes (label_word x) ++ enc_label_words r
  end.
(* Serialize: an empty stack is an error; a withdraw label anywhere makes the whole output 80 00 00 *)
Definition enc_labels (l : list Z) : option (list Z) :=
  match l with
  | [] => None
  | _ => if existsb (Z.eqb WITHDRAW) l then Some [128; 0; 0] else Some (enc_label_words l)
  end.
(* DecodeFromBytes (bottom of stack expected): reads the whole remaining buffer *)
Fixpoint dec_labels (d : list Z) (acc : list Z) : option (list Z) :=
  match d with
  | a :: b :: c :: r =>
      let w := a * 65536 + b * 256 + c in
      if (w =? WITHDRAW) || (w =? 0) then Some [w]
      else if Z.odd w then Some (acc ++ [w / 16])
      else dec_labels r (acc ++ [w / 16])
  | _ => match acc with [] => Some [] | _ => None end
  end.

(* ---- GetRouteDistinguisher + Serialize of the result: the eight octets as they are (types 0, 1, 2 are parsed into
   fields and emitted from them; any other type keeps its six value octets) *)
Definition dec_rd (d : list Z) : list Z := d.

(* ---- IPAddrPrefixDefault.decodePrefix *)
Definition dec_pfx (d : list Z) (bits alen : Z) : option (list Z) :=
  let n := octets_of bits in
  if blen d <? n then None
  else if alen * 8 <? bits then None
  else Some (mask_last (last_mask bits) (firstn (Z.to_nat n) d)).

Definition dec_fnlri (k : kind) (alen : Z) (d : list Z) : option (fnlri * Z) :=
  match d with
  | [] => None
  | bits :: r =>
      match k with
      | KPlain =>
          match dec_pfx r bits alen with
          | Some o => Some (mkF [] [] bits o, 1 + octets_of bits)
          | None => None
          end
      | KLabelled =>
          match dec_labels r [] with
          | None => None
          | Some ls =>
              let ll := 3 * blen ls in
              if bits - 8 * ll <? 0 then None
              else if blen r <? ll then None
              else match dec_pfx (skipn (Z.to_nat ll) r) (bits - 8 * ll) alen with
                   | Some o => Some (mkF ls [] (bits - 8 * ll) o, 1 + ll + octets_of (bits - 8 * ll))
                   | None => None
                   end
          end
      | KVpn =>
          match dec_labels r [] with
          | None => None
          | Some ls =>
              let ll := 3 * blen ls in
              if bits - 8 * ll <? 0 then None
              else if blen r <? ll + 8 then None
              else
                let r1 := skipn (Z.to_nat ll) r in
                let rest := bits - 8 * (ll + 8) in
                (* a negative rest becomes 192..255 as uint8: "network bytes is short" or "bit length is too long" *)
                if rest <? 0 then None
                else match dec_pfx (skipn 8 r1) rest alen with
                     | Some o => Some (mkF ls (dec_rd (firstn 8 r1)) rest o, 1 + ll + 8 + octets_of rest)
                     | None => None
                     end
          end
      end
  end.

(* Serialize; the length octet is uint8(bits) *)
Definition enc_fnlri (k : kind) (v : fnlri) : option (list Z) :=
  match k with
  | KPlain => Some (f_bits v :: f_oct v)
  | KLabelled =>
      match enc_labels (f_labels v) with
      | Some lb => Some ((8 * (3 * blen (f_labels v)) + f_bits v) mod 256 :: lb ++ f_oct v)
      | None => None
      end
  | KVpn =>
      match enc_labels (f_labels v) with
      | Some lb => Some ((8 * (3 * blen (f_labels v) + 8) + f_bits v) mod 256 :: lb ++ f_rd v ++ f_oct v)
      | None => None
      end
  end.

(* Len() *)
Definition fnlri_len (k : kind) (v : fnlri) : Z :=
  match k with
  | KPlain => 1 + octets_of (f_bits v)
  | KLabelled => 1 + 3 * blen (f_labels v) + octets_of (f_bits v)
  | KVpn => 1 + 3 * blen (f_labels v) + 8 + octets_of (f_bits v)
  end.

(* NLRIFromSlice by family *)
Definition nlri_from_slice (afi safi : Z) (d : list Z) : option (fnlri * Z) :=
  match family_kind afi safi with Some (k, a) => dec_fnlri k a d | None => None end.
Definition nlri_serialize (afi safi : Z) (v : fnlri) : option (list Z) :=
  match family_kind afi safi with Some (k, _) => enc_fnlri k v | None => None end.

(* ---- the NLRI loop of MP_REACH_NLRI / MP_UNREACH_NLRI: optional ADD-PATH identifier, one NLRI, advance by its Len() *)
Fixpoint dec_nlri_list (fuel : nat) (ap : bool) (k : kind) (alen : Z) (d : list Z) : option (list (Z * fnlri)) :=
  match d with
  | [] => Some []
  | _ =>
      match fuel with
      | O => None
      | S f =>
          match (if ap then match take 4 d with Some (i, r) => Some (de32 i, r) | None => None end else Some (0, d)) with
          | None => None
          | Some (id, d1) =>
              match dec_fnlri k alen d1 with
              | None => None
              | Some (v, n) =>
                  if blen d1 <? n then None
                  else match dec_nlri_list f ap k alen (skipn (Z.to_nat n) d1) with
                       | Some l => Some ((id, v) :: l)
                       | None => None
                       end
              end
          end
      end
  end.
Fixpoint enc_nlri_list (ap : bool) (k : kind) (l : list (Z * fnlri)) : option (list Z) :=
  match l with
  | [] => Some []
  | (id, v) :: r =>
      match enc_fnlri k v, enc_nlri_list ap k r with
      | Some b, Some t => Some ((if ap then be32 id else []) ++ b ++ t)
      | _, _ => None
      end
  end.
