(* C03 -- invariants of destination.Calculate over all histories. *)
From Coq Require Import List ZArith Bool Lia Sorted Permutation.
From Verif Require Import Decision.Model Decision.Search Decision.Key.
Import ListNotations.
Open Scope Z_scope.

(* ---------- sources ---------- *)
Definition srckey (c : cand) : Z * Z * Z * option Z := (c_as c, c_id c, c_localid c, c_addr c).

Lemma opt_eqb_eq a b : opt_eqb a b = true <-> a = b.
Proof.
  destruct a, b; simpl; split; intros H; try discriminate; try reflexivity.
  - apply Z.eqb_eq in H. now subst.
  - injection H as ->. apply Z.eqb_refl.
Qed.

Lemma same_source_iff a b : same_source a b = true <-> srckey a = srckey b.
Proof.
  unfold same_source, srckey. rewrite !andb_true_iff, !Z.eqb_eq, opt_eqb_eq. split.
  - intros [[[-> ->] ->] ->]. reflexivity.
  - intros H. injection H as -> -> -> ->. auto.
Qed.

Lemma same_source_false_iff a b : same_source a b = false <-> srckey a <> srckey b.
Proof.
  rewrite <- same_source_iff. destruct (same_source a b); split; intros; congruence.
Qed.

(* ---------- histories ---------- *)
Definition op_cand (e : op) : cand := match e with Announce c => c | Withdraw c => c end.
Definition mentioned (h : list op) : list cand := map op_cand h.
Definition announced (h : list op) : list cand :=
  flat_map (fun e => match e with Announce c => [c] | Withdraw _ => [] end) h.

(* Candidate sets the property quantifies over: one path per source (no ADD-PATH duplicates from one
   source), and every two candidates from different sources compatible (distinct addresses,
   MED comparable, kinds_ok). *)
Definition hist_ok (o : opts) (h : list op) : Prop :=
  (forall a b, In a (mentioned h) -> In b (mentioned h) -> same_source a b = true -> c_pid a = c_pid b) /\
  (forall a b, In a (announced h) -> In b (announced h) -> same_source a b = false -> compat o a b = true).

Definition keep_other (c : cand) (x : cand) : bool := negb (same_key c x).

Definition live_step (s : list cand) (e : op) : list cand :=
  match e with
  | Announce c => c :: filter (keep_other c) s
  | Withdraw c => filter (keep_other c) s
  end.
(* the latest un-withdrawn announcement per (source, path id), as a function of the history *)
Definition live (h : list op) : list cand := fold_left live_step h [].

(* ---------- removal = filter when sources are pairwise distinct ---------- *)
Lemma filter_all_true {A} (p : A -> bool) l : (forall y, In y l -> p y = true) -> filter p l = l.
Proof.
  induction l as [|y l IH]; intros H; [reflexivity|]. cbn [filter]. rewrite H by now left.
  f_equal. apply IH. intros z Hz. apply H. now right.
Qed.

Lemma remove_first_filter c l :
  NoDup (map srckey l) ->
  (forall x, In x l -> same_source c x = true -> c_pid c = c_pid x) ->
  remove_first c l = filter (keep_other c) l.
Proof.
  induction l as [|x r IH]; intros Hnd Hpid; [reflexivity|].
  simpl in Hnd. inversion Hnd as [|? ? Hnin Hnd']; subst.
  cbn [remove_first filter]. unfold keep_other at 1.
  destruct (same_key c x) eqn:E; cbn [negb].
  - (* nothing else in r has the source of c *)
    symmetry. clear IH. assert (Hall : forall y, In y r -> keep_other c y = true).
    { intros y Hy. unfold keep_other, same_key. destruct (same_source c y) eqn:E2; [|reflexivity].
      exfalso. apply Hnin. unfold same_key in E. apply andb_true_iff in E. destruct E as [E _].
      apply same_source_iff in E, E2. rewrite <- E, E2. now apply in_map. }
    now apply filter_all_true.
  - f_equal. apply IH; auto. intros y Hy. apply Hpid. now right.
Qed.

Lemma filter_rev {A} (p : A -> bool) l : filter p (rev l) = rev (filter p l).
Proof.
  induction l as [|x l IH]; [reflexivity|]. simpl. rewrite filter_app, IH. simpl.
  destruct (p x); simpl; [reflexivity|]. now rewrite app_nil_r.
Qed.

Lemma remove_last_filter c l :
  NoDup (map srckey l) ->
  (forall x, In x l -> same_source c x = true -> c_pid c = c_pid x) ->
  remove_last c l = filter (keep_other c) l.
Proof.
  intros Hnd Hpid. unfold remove_last. rewrite remove_first_filter.
  - now rewrite filter_rev, rev_involutive.
  - rewrite map_rev. now apply NoDup_rev.
  - intros x Hx. apply Hpid. now apply in_rev.
Qed.

(* ---------- sortedness ---------- *)
Section Sorting.
Variable o : opts.
Notation lt := (pref_lt o).

Lemma lt_trans a b c : lt a b -> lt b c -> lt a c.
Proof. unfold pref_lt. apply lex_trans; reflexivity. Qed.

Lemma lt_asym a b : lt a b -> lt b a -> False.
Proof. unfold pref_lt. intros H1 H2. rewrite lex_antisym, H1 in H2. discriminate. Qed.

Lemma sorted_app l1 : forall c l2,
  StronglySorted lt l1 -> StronglySorted lt l2 ->
  (forall x, In x l1 -> lt x c) -> (forall x, In x l2 -> lt c x) ->
  StronglySorted lt (l1 ++ c :: l2).
Proof.
  induction l1 as [|x l1 IH]; intros c l2 H1 H2 Hlo Hhi; simpl.
  - constructor; auto. apply Forall_forall. auto.
  - inversion H1 as [|? ? Hs Hf]; subst. constructor.
    + apply IH; auto. intros y Hy. apply Hlo. now right.
    + apply Forall_forall. intros y Hy. apply in_app_or in Hy. destruct Hy as [Hy|[<-|Hy]].
      * rewrite Forall_forall in Hf. auto.
      * apply Hlo. now left.
      * eapply lt_trans; [apply Hlo; now left|]. auto.
Qed.

Lemma sorted_split c l :
  StronglySorted lt l -> (forall x, In x l -> lex (key o c) (key o x) <> Eq) ->
  exists l1 l2, l = l1 ++ l2 /\ (forall x, In x l1 -> lt x c) /\ (forall x, In x l2 -> lt c x).
Proof.
  induction l as [|x r IH]; intros Hs Hne.
  - exists [], []. repeat split; intros ? [].
  - inversion Hs as [|? ? Hsr Hf]; subst. rewrite Forall_forall in Hf.
    destruct (lex (key o c) (key o x)) eqn:E.
    + exfalso. apply (Hne x); [now left|assumption].
    + exists [], (x :: r). repeat split; [intros ? []|].
      intros y [<-|Hy]; [exact E|]. eapply lt_trans; [exact E|]. auto.
    + destruct IH as (l1 & l2 & -> & H1 & H2); auto.
      { intros y Hy. apply Hne. now right. }
      exists (x :: l1), l2. repeat split; auto.
      intros y [<-|Hy]; auto. unfold pref_lt. rewrite lex_antisym, E. reflexivity.
Qed.

Lemma sorted_filter p l : StronglySorted lt l -> StronglySorted lt (filter p l).
Proof.
  induction 1 as [|x l Hs IH Hf]; simpl; [constructor|].
  destruct (p x); auto. constructor; auto.
  rewrite Forall_forall in *. intros y Hy. apply filter_In in Hy. apply Hf, Hy.
Qed.

(* inserting c with the real sort.Search predicate puts it at its place in a sorted list *)
Lemma insert_sorted_correct c l :
  StronglySorted lt l -> (forall x, In x l -> compat o c x = true) ->
  StronglySorted lt (insert_sorted o l c) /\ Permutation (insert_sorted o l c) (c :: l).
Proof.
  intros Hs Hc.
  destruct (sorted_split c l Hs) as (l1 & l2 & -> & H1 & H2).
  { intros x Hx. apply compat_strict. auto. }
  unfold insert_sorted.
  rewrite (sort_search_split dummy (fun x => ins_pred o c x) l1 l2).
  - rewrite firstn_app_exact, skipn_app_exact. split.
    + apply sorted_app; auto.
      * clear -Hs. induction l1; simpl in *; [constructor|]. inversion Hs; subst. constructor; auto.
        rewrite Forall_forall in *. intros y Hy. apply H2. apply in_or_app. now left.
      * clear -Hs. induction l1; simpl in *; auto. inversion Hs; auto.
    + symmetry. apply Permutation_middle.
  - intros x Hx. rewrite chain_is_key by (apply Hc, in_or_app; now left).
    unfold pref_le. specialize (H1 x Hx). unfold pref_lt in H1. rewrite lex_antisym, H1. reflexivity.
  - intros x Hx. rewrite chain_is_key by (apply Hc, in_or_app; now right).
    unfold pref_le. specialize (H2 x Hx). unfold pref_lt in H2. now rewrite H2.
Qed.

(* two strictly sorted lists with the same elements are equal *)
Lemma sorted_perm_eq l1 : forall l2,
  StronglySorted lt l1 -> StronglySorted lt l2 -> Permutation l1 l2 -> l1 = l2.
Proof.
  induction l1 as [|x r1 IH]; intros l2 H1 H2 Hp.
  - apply Permutation_nil in Hp. now subst.
  - destruct l2 as [|y r2]; [apply Permutation_sym, Permutation_nil in Hp; discriminate|].
    inversion H1 as [|? ? Hs1 Hf1]; inversion H2 as [|? ? Hs2 Hf2]; subst. rewrite Forall_forall in *.
    assert (x = y).
    { assert (Hx : In x (y :: r2)) by (eapply Permutation_in; [exact Hp|now left]).
      assert (Hy : In y (x :: r1)) by (eapply Permutation_in; [apply Permutation_sym; exact Hp|now left]).
      destruct Hx as [->|Hx]; [reflexivity|]. destruct Hy as [->|Hy]; [reflexivity|].
      exfalso. eapply lt_asym; [apply Hf1, Hy|apply Hf2, Hx]. }
    subst y. f_equal. apply IH; auto. eapply Permutation_cons_inv; eauto.
Qed.
End Sorting.

(* ---------- the invariant over histories ---------- *)
Lemma Permutation_filter {A} (p : A -> bool) l1 l2 : Permutation l1 l2 -> Permutation (filter p l1) (filter p l2).
Proof.
  induction 1; simpl; auto.
  - destruct (p x); auto.
  - destruct (p x), (p y); auto. apply perm_swap.
  - eapply Permutation_trans; eauto.
Qed.

Lemma NoDup_map_filter {A B} (f : A -> B) p l : NoDup (map f l) -> NoDup (map f (filter p l)).
Proof.
  induction l as [|x l IH]; simpl; intros H; [constructor|]. inversion H; subst.
  destruct (p x); simpl; auto. constructor; auto.
  intros Hin. apply in_map_iff in Hin. destruct Hin as (y & Hy & Hin). apply filter_In in Hin.
  apply H2. rewrite <- Hy. apply in_map. apply Hin.
Qed.

Definition inv (o : opts) (U M : list cand) (l : list cand) : Prop :=
  StronglySorted (pref_lt o) l /\ NoDup (map srckey l) /\ (forall x, In x l -> In x U /\ In x M).

Lemma step_inv o U M l s e :
  (forall a b, In a M -> In b M -> same_source a b = true -> c_pid a = c_pid b) ->
  (forall a b, In a U -> In b U -> same_source a b = false -> compat o a b = true) ->
  In (op_cand e) M -> (match e with Announce c => In c U | Withdraw _ => True end) ->
  inv o U M l -> Permutation l s ->
  inv o U M (calc o l e) /\ Permutation (calc o l e) (live_step s e).
Proof.
  intros HM HU HeM HeU (Hs & Hnd & Hin) Hp.
  assert (Hpid : forall x, In x l -> same_source (op_cand e) x = true -> c_pid (op_cand e) = c_pid x).
  { intros x Hx. apply HM; auto. apply Hin, Hx. }
  destruct e as [c|c]; cbn [calc live_step op_cand] in *.
  - rewrite remove_first_filter by auto.
    assert (Hc : forall x, In x (filter (keep_other c) l) -> compat o c x = true).
    { intros x Hx. apply filter_In in Hx. destruct Hx as [Hx Hk]. apply HU; auto; [apply Hin, Hx|].
      unfold keep_other, same_key in Hk. destruct (same_source c x) eqn:E; [|reflexivity].
      rewrite (Hpid x Hx E), Z.eqb_refl in Hk. discriminate. }
    destruct (insert_sorted_correct o c _ (sorted_filter o _ _ Hs) Hc) as [Hs' Hp'].
    split; [split; [exact Hs'|split]|].
    + eapply Permutation_NoDup; [apply Permutation_map, Permutation_sym, Hp'|]. simpl. constructor.
      * intros Hi. apply in_map_iff in Hi. destruct Hi as (x & Hk & Hx).
        specialize (Hc x Hx). apply compat_sources in Hc. destruct Hc as [Hc _].
        apply same_source_false_iff in Hc. congruence.
      * now apply NoDup_map_filter.
    + intros x Hx. eapply Permutation_in in Hx; [|exact Hp']. destruct Hx as [<-|Hx]; [auto|].
      apply filter_In in Hx. apply Hin, Hx.
    + eapply Permutation_trans; [exact Hp'|]. constructor. now apply Permutation_filter.
  - rewrite remove_last_filter by auto. split; [split; [|split]|].
    + now apply sorted_filter.
    + now apply NoDup_map_filter.
    + intros x Hx. apply filter_In in Hx. apply Hin, Hx.
    + now apply Permutation_filter.
Qed.

Lemma run_inv_gen o U M : 
  (forall a b, In a M -> In b M -> same_source a b = true -> c_pid a = c_pid b) ->
  (forall a b, In a U -> In b U -> same_source a b = false -> compat o a b = true) ->
  forall h l s,
  (forall e, In e h -> In (op_cand e) M /\ match e with Announce c => In c U | Withdraw _ => True end) ->
  inv o U M l -> Permutation l s ->
  inv o U M (fold_left (calc o) h l) /\ Permutation (fold_left (calc o) h l) (fold_left live_step h s).
Proof.
  intros HM HU. induction h as [|e h IH]; intros l s Hh Hi Hp; [auto|].
  cbn [fold_left]. destruct (Hh e (or_introl eq_refl)) as [HeM HeU].
  destruct (step_inv o U M l s e HM HU HeM HeU Hi Hp) as [Hi' Hp'].
  apply IH; auto. intros e' He'. apply Hh. now right.
Qed.

Lemma in_announced h c : In (Announce c) h -> In c (announced h).
Proof. intros H. unfold announced. apply in_flat_map. exists (Announce c). split; [assumption|now left]. Qed.

Theorem sorted_invariant o h : hist_ok o h ->
  StronglySorted (pref_lt o) (run o h) /\ NoDup (map srckey (run o h)) /\ Permutation (run o h) (live h).
Proof.
  intros [HM HU]. unfold run, live.
  destruct (run_inv_gen o (announced h) (mentioned h) HM HU h [] []) as [(Hs & Hnd & _) Hp].
  - intros e He. split; [unfold mentioned; now apply in_map|]. destruct e; [now apply in_announced|exact I].
  - split; [constructor|split; [constructor|intros ? []]].
  - constructor.
  - auto.
Qed.

Theorem order_independent o h1 h2 : hist_ok o h1 -> hist_ok o h2 ->
  Permutation (live h1) (live h2) ->
  run o h1 = run o h2 /\ best (run o h1) = best (run o h2) /\ multi (run o h1) = multi (run o h2).
Proof.
  intros H1 H2 Hp.
  destruct (sorted_invariant o h1 H1) as (Hs1 & _ & Hp1). destruct (sorted_invariant o h2 H2) as (Hs2 & _ & Hp2).
  assert (E : run o h1 = run o h2).
  { apply (sorted_perm_eq o); auto.
    eapply Permutation_trans; [exact Hp1|]. eapply Permutation_trans; [exact Hp|]. now apply Permutation_sym. }
  now rewrite E.
Qed.

(* the reported best path is the most preferred live candidate under the documented process, and is reachable *)
Theorem best_is_documented o h : hist_ok o h ->
  match best (run o h) with
  | Some b => In b (live h) /\ c_nhinv b = false /\ forall c, In c (live h) -> c = b \/ pref_lt o b c
  | None => live h = [] \/ exists b, In b (live h) /\ c_nhinv b = true /\ forall c, In c (live h) -> c = b \/ pref_lt o b c
  end.
Proof.
  intros H. destruct (sorted_invariant o h H) as (Hs & _ & Hp).
  destruct (run o h) as [|b r] eqn:E; cbn [best].
  - left. apply Permutation_nil in Hp. exact Hp.
  - inversion Hs as [|? ? _ Hf]; subst. rewrite Forall_forall in Hf.
    assert (Hmin : forall c, In c (live h) -> c = b \/ pref_lt o b c).
    { intros c Hc. eapply Permutation_in in Hc; [|apply Permutation_sym; exact Hp].
      destruct Hc as [<-|Hc]; auto. }
    assert (Hb : In b (live h)) by (eapply Permutation_in; [exact Hp|now left]).
    destruct (c_nhinv b) eqn:Eb; [right; exists b|]; auto.
Qed.

(* multipath set: the best path followed by the maximal run of reachable paths comparing equal to it *)
Lemma take_equal_spec b l :
  exists rest, l = take_equal b l ++ rest /\
    (forall x, In x (take_equal b l) -> c_nhinv x = false /\ compare_eq0 x b = true) /\
    match rest with [] => True | y :: _ => c_nhinv y = true \/ compare_eq0 y b = false end.
Proof.
  induction l as [|x r IH]; cbn [take_equal].
  - exists []. split; [reflexivity|split; [intros ? []|exact I]].
  - destruct (c_nhinv x || negb (compare_eq0 x b)) eqn:E.
    + exists (x :: r). split; [reflexivity|split; [intros ? []|]].
      apply orb_true_iff in E. destruct E as [E|E]; [now left|right]. now apply negb_true_iff in E.
    + destruct IH as (rest & Hl & Hall & Hr). exists rest. apply orb_false_iff in E. destruct E as [E1 E2].
      apply negb_false_iff in E2. split; [|split; [|exact Hr]].
      * simpl. now f_equal.
      * intros y [<-|Hy]; [auto|]. apply Hall, Hy.
Qed.

Theorem multi_is_equal_prefix l :
  match l with
  | [] => multi l = []
  | b :: r =>
      if c_nhinv b then multi l = []
      else exists m rest, multi l = b :: m /\ l = (b :: m) ++ rest /\
             (forall x, In x m -> c_nhinv x = false /\ compare_eq0 x b = true) /\
             match rest with [] => True | y :: _ => c_nhinv y = true \/ compare_eq0 y b = false end
  end.
Proof.
  destruct l as [|b r]; [reflexivity|]. cbn [multi]. destruct (c_nhinv b); [reflexivity|].
  destruct (take_equal_spec b r) as (rest & Hl & Hall & Hr).
  exists (take_equal b r), rest. split; [reflexivity|split; [simpl; now f_equal|split; [exact Hall|exact Hr]]].
Qed.

(* ---------- a boolean checker for hist_ok (used for non-vacuity examples) ---------- *)
Definition hist_okb (o : opts) (h : list op) : bool :=
  forallb (fun a => forallb (fun b => negb (same_source a b) || (c_pid a =? c_pid b)) (mentioned h)) (mentioned h) &&
  forallb (fun a => forallb (fun b => same_source a b || compat o a b) (announced h)) (announced h).

Lemma hist_okb_sound o h : hist_okb o h = true -> hist_ok o h.
Proof.
  unfold hist_okb, hist_ok. rewrite andb_true_iff, !forallb_forall. intros [H1 H2]. split.
  - intros a b Ha Hb Hs. specialize (H1 a Ha). rewrite forallb_forall in H1. specialize (H1 b Hb).
    rewrite Hs in H1. simpl in H1. now apply Z.eqb_eq.
  - intros a b Ha Hb Hs. specialize (H2 a Ha). rewrite forallb_forall in H2. specialize (H2 b Hb).
    now rewrite Hs in H2.
Qed.

(* ---------- the statement at full strength (without kinds_ok) is false of the code ---------- *)
Definition mk (tag a id addr : Z) (confed : bool) (ts : Z) : cand :=
  {| c_tag := tag; c_as := a; c_localas := 65000; c_id := id; c_localid := 9; c_addr := Some addr; c_confed := confed;
     c_pid := 0; c_llgr := false; c_nhinv := false; c_lp := 100; c_segs := []; c_origin := 0; c_med := 0; c_ts := ts |}.
Definition w_o : opts := {| o_always_med := false; o_ignore_aslen := false; o_ext_rid := false |}.
Definition w_A := mk 1 65100 1 30 true 100.   (* confederation-eBGP, older, highest address *)
Definition w_B := mk 2 65101 2 10 true 200.   (* confederation-eBGP, newer, lowest address *)
Definition w_C := mk 3 65000 3 20 false 300.  (* iBGP, address in between *)

Theorem full_order_independence_refuted :
  exists o h1 h2,
    Permutation (live h1) (live h2) /\
    (forall a b, In a (announced h1) -> In b (announced h1) -> same_source a b = false ->
       negb (opt_eqb (c_addr a) (c_addr b)) && med_applies o a b && addr_nonneg a && addr_nonneg b = true) /\
    best (run o h1) <> best (run o h2).
Proof.
  exists w_o, [Announce w_A; Announce w_B; Announce w_C], [Announce w_C; Announce w_B; Announce w_A].
  split; [|split].
  - assert (E1 : live [Announce w_A; Announce w_B; Announce w_C] = [w_C; w_B; w_A]) by (vm_compute; reflexivity).
    assert (E2 : live [Announce w_C; Announce w_B; Announce w_A] = rev [w_C; w_B; w_A]) by (vm_compute; reflexivity).
    rewrite E1, E2. apply Permutation_rev.
  - intros a b Ha Hb Hs. simpl in Ha, Hb.
    destruct Ha as [<-|[<-|[<-|[]]]]; destruct Hb as [<-|[<-|[<-|[]]]]; vm_compute in Hs |- *; try reflexivity; discriminate Hs.
  - vm_compute. intros H. discriminate H.
Qed.

(* ---- a candidate that is not MED-comparable with the others leaves the list mis-ordered even after it has been withdrawn:
   the LIVE set below is pairwise MED-comparable and the decision process prefers v_1 (lowest MED), yet after the history
   "announce v_3, announce v_x (empty AS_PATH, eBGP), announce v_1, withdraw v_x" the head of the list is v_3.
   (insert_sorted places v_1 by binary search after v_x, which beats it as eBGP over confederation-eBGP, without ever
   comparing it with v_3; removing v_x does not re-sort.)  Found by the thorough tier of the C03 check. *)
Definition v_mk (tag a addr : Z) (confed : bool) (segs : list (Z * list Z)) (med : Z) : cand :=
  {| c_tag := tag; c_as := a; c_localas := 65000; c_id := 22; c_localid := 9; c_addr := Some addr; c_confed := confed;
     c_pid := 0; c_llgr := false; c_nhinv := false; c_lp := 90; c_segs := segs; c_origin := 0; c_med := med; c_ts := 5 |}.
Definition v_o : opts := {| o_always_med := false; o_ignore_aslen := true; o_ext_rid := false |}.
Definition v_1 := v_mk 1 65100 167772163 true [(2, [65001])] 0.
Definition v_3 := v_mk 3 65001 167772164 false [(2, [65001; 7])] 5.
Definition v_x := v_mk 10 65001 167772173 false [] 5.

Theorem stale_order_after_withdrawal_refuted :
  exists o h,
    (forall a b, In a (live h) -> In b (live h) -> med_applies o a b = true) /\
    best (run o h) <> best (run o (map Announce (live h))).
Proof.
  exists v_o, [Announce v_3; Announce v_x; Announce v_1; Withdraw v_x]. split.
  - assert (E : live [Announce v_3; Announce v_x; Announce v_1; Withdraw v_x] = [v_1; v_3]) by (vm_compute; reflexivity).
    rewrite E. intros a b Ha Hb. cbn [In] in Ha, Hb. destruct Ha as [<-|[<-|[]]]; destruct Hb as [<-|[<-|[]]]; vm_compute; reflexivity.
  - vm_compute. intros H. discriminate H.
Qed.
