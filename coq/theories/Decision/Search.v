(* Go's sort.Search loop (Decision.Model.search_loop) finds the boundary of a monotone predicate. *)
From Coq Require Import List Arith Lia PeanoNat.
From Verif Require Import Decision.Model.
Import ListNotations.

Lemma div2_bounds i j : i < j -> i <= Nat.div2 (i + j) < j.
Proof.
  intros H. rewrite Nat.div2_div.
  split.
  - apply Nat.div_le_lower_bound; lia.
  - apply Nat.div_lt_upper_bound; lia.
Qed.

Lemma search_loop_correct f : forall fuel i j k,
  i <= k <= j -> j - i < fuel ->
  (forall x, i <= x < k -> f x = false) ->
  (forall x, k <= x < j -> f x = true) ->
  search_loop fuel f i j = k.
Proof.
  induction fuel as [|fu IH]; intros i j k Hk Hf Hlo Hhi; [lia|].
  cbn [search_loop]. destruct (i <? j) eqn:E.
  - apply Nat.ltb_lt in E. pose proof (div2_bounds i j E) as Hb.
    set (h := Nat.div2 (i + j)) in *.
    destruct (f h) eqn:Efh.
    + assert (k <= h). { destruct (le_lt_dec k h); [assumption|]. rewrite Hlo in Efh by lia. discriminate. }
      apply IH; try lia; intros x Hx; [apply Hlo | apply Hhi]; lia.
    + assert (h < k). { destruct (le_lt_dec k h); [|assumption]. rewrite Hhi in Efh by lia. discriminate. }
      apply IH; try lia; intros x Hx; [apply Hlo | apply Hhi]; lia.
  - apply Nat.ltb_ge in E. lia.
Qed.

Lemma sort_search_split {A} (d : A) (p : A -> bool) (l1 l2 : list A) :
  (forall x, In x l1 -> p x = false) -> (forall x, In x l2 -> p x = true) ->
  sort_search (length (l1 ++ l2)) (fun i => p (nth i (l1 ++ l2) d)) = length l1.
Proof.
  intros H1 H2. unfold sort_search. apply search_loop_correct.
  - rewrite app_length; lia.
  - lia.
  - intros x Hx. rewrite app_nth1 by lia. apply H1, nth_In; lia.
  - intros x Hx. rewrite app_length in Hx. rewrite app_nth2 by lia. apply H2, nth_In; lia.
Qed.

Lemma firstn_app_exact {A} (l1 l2 : list A) : firstn (length l1) (l1 ++ l2) = l1.
Proof. rewrite firstn_app, Nat.sub_diag, firstn_all; simpl. apply app_nil_r. Qed.
Lemma skipn_app_exact {A} (l1 l2 : list A) : skipn (length l1) (l1 ++ l2) = l2.
Proof. rewrite skipn_app, Nat.sub_diag, skipn_all; reflexivity. Qed.
