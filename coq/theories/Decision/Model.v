(* C03 -- executable model of internal/pkg/table/destination.go:
     insertSort (comparator chain as the predicate of sort.Search), compareBy*,
     Calculate / implicitWithdraw / explicitWithdraw, GetBestPath, getMultiBestPath,
   path.go: Path.Compare, IsLocal, IsIBGP, GetAsPathLen; bgp.go: ASLen.
   A candidate records exactly the facts those functions read. Definitions only. *)
From Coq Require Import List ZArith Bool Arith.
Import ListNotations.
Open Scope Z_scope.

Record cand := {
  c_tag : Z;                  (* identity of the path object; read by no comparator *)
  c_as : Z; c_localas : Z; c_id : Z; c_localid : Z;   (* PeerInfo.AS / LocalAS / ID / LocalID *)
  c_addr : option Z;          (* PeerInfo.Address; None = invalid address = locally originated *)
  c_confed : bool;            (* PeerInfo.Confederation *)
  c_pid : Z;                  (* remote path identifier *)
  c_llgr : bool;              (* carries LLGR_STALE *)
  c_nhinv : bool;             (* IsNexthopInvalid *)
  c_lp : Z;                   (* LOCAL_PREF, 100 when absent *)
  c_segs : list (Z * list Z); (* AS_PATH segments (type, members) *)
  c_origin : Z;               (* ORIGIN (mandatory attribute) *)
  c_med : Z;                  (* MED, 0 when absent *)
  c_ts : Z                    (* timestamp, seconds *)
}.

Record opts := { o_always_med : bool; o_ignore_aslen : bool; o_ext_rid : bool }.

Definition len {A} (l : list A) : Z := Z.of_nat (length l).

(* ASLen: SEQ counts members, SET counts 1, confederation segments 0 *)
Definition seg_aslen (s : Z * list Z) : Z :=
  if fst s =? 2 then len (snd s) else if fst s =? 1 then 1 else 0.
Fixpoint aslen (p : list (Z * list Z)) : Z :=
  match p with [] => 0 | s :: r => seg_aslen s + aslen r end.

(* firstAS of compareByMED: first member of the first non-empty, non-confederation segment; 0 if none *)
Fixpoint first_as (p : list (Z * list Z)) : Z :=
  match p with
  | [] => 0
  | (t, m) :: r =>
      match m with
      | [] => first_as r
      | a :: _ => if (t =? 3) || (t =? 4) then first_as r else a
      end
  end.

Definition is_local (c : cand) : bool := match c_addr c with None => true | Some _ => false end.
Definition is_ibgp (c : cand) : bool := (c_as c =? c_localas c) && negb (c_as c =? 0).

Definition opt_eqb (a b : option Z) : bool :=
  match a, b with
  | None, None => true
  | Some x, Some y => x =? y
  | _, _ => false
  end.

(* PeerInfo.Equal *)
Definition same_source (a b : cand) : bool :=
  (c_as a =? c_as b) && (c_id a =? c_id b) && (c_localid a =? c_localid b) && opt_eqb (c_addr a) (c_addr b).
(* Path.EqualBySourceAndPathID *)
Definition same_key (a b : cand) : bool := same_source a b && (c_pid a =? c_pid b).

(* comparators: Some true = path1 wins, Some false = path2 wins, None = undecided *)
Definition by_z_low (x y : Z) : option bool :=
  if x =? y then None else if x <? y then Some true else Some false.

Definition cmp_llgr (a b : cand) : option bool :=
  if Bool.eqb (c_llgr a) (c_llgr b) then None else if c_llgr a then Some false else Some true.
Definition cmp_nexthop (a b : cand) : option bool :=
  if c_nhinv a && negb (c_nhinv b) then Some false
  else if negb (c_nhinv a) && c_nhinv b then Some true else None.
Definition cmp_localpref (a b : cand) : option bool :=
  if c_lp b <? c_lp a then Some true else if c_lp a <? c_lp b then Some false else None.
Definition cmp_localorigin (a b : cand) : option bool :=
  if same_source a b then None
  else if is_local a then Some true else if is_local b then Some false else None.
Definition cmp_aspath (o : opts) (a b : cand) : option bool :=
  if o_ignore_aslen o then None
  else if aslen (c_segs b) <? aslen (c_segs a) then Some false
  else if aslen (c_segs a) <? aslen (c_segs b) then Some true else None.
Definition cmp_origin (a b : cand) : option bool := by_z_low (c_origin a) (c_origin b).
Definition med_applies (o : opts) (a b : cand) : bool :=
  o_always_med o
  || ((aslen (c_segs a) =? 0) && (aslen (c_segs b) =? 0))
  || (negb (first_as (c_segs a) =? 0) && (first_as (c_segs a) =? first_as (c_segs b))).
Definition cmp_med (o : opts) (a b : cand) : option bool :=
  if med_applies o a b then by_z_low (c_med a) (c_med b) else None.
Definition group_i (c : cand) : bool := c_confed c || is_ibgp c.
Definition cmp_asnumber (a b : cand) : option bool :=
  if Bool.eqb (group_i a) (group_i b) then None else if group_i a then Some false else Some true.
Definition cmp_age (o : opts) (a b : cand) : option bool :=
  if negb (is_ibgp a) && negb (is_ibgp b) && negb (o_ext_rid o) then by_z_low (c_ts a) (c_ts b) else None.
Definition cmp_routerid (o : opts) (a b : cand) : option bool :=
  if is_local a && is_local b then None
  else if negb (o_ext_rid o) && negb (is_ibgp a) && negb (is_ibgp b) then None
  else if negb (o_ext_rid o) && negb (Bool.eqb (is_ibgp a) (is_ibgp b)) then None
  else by_z_low (c_id a) (c_id b).
Definition cmp_neighbor (a b : cand) : option bool :=
  match c_addr a with
  | None => Some true
  | Some x => match c_addr b with None => Some false | Some y => by_z_low x y end
  end.

(* the chain, in the order of insertSort; ends in true *)
Definition chain (o : opts) : list (cand -> cand -> option bool) :=
  [cmp_llgr; cmp_nexthop; cmp_localpref; cmp_localorigin; cmp_aspath o; cmp_origin; cmp_med o;
   cmp_asnumber; cmp_age o; cmp_routerid o; cmp_neighbor].

Fixpoint run_chain (cs : list (cand -> cand -> option bool)) (a b : cand) : bool :=
  match cs with
  | [] => true
  | c :: r => match c a b with Some v => v | None => run_chain r a b end
  end.

Definition ins_pred (o : opts) (newp old : cand) : bool := run_chain (chain o) newp old.

(* Go's sort.Search: smallest i in [0,n) with f i = true, assuming monotonicity; the loop verbatim *)
Fixpoint search_loop (fuel : nat) (f : nat -> bool) (i j : nat) : nat :=
  match fuel with
  | O => i
  | S fu =>
      if (i <? j)%nat then
        let h := Nat.div2 (i + j) in
        if f h then search_loop fu f i h else search_loop fu f (S h) j
      else i
  end.
Definition sort_search (n : nat) (f : nat -> bool) : nat := search_loop (S n) f 0%nat n.

Definition dummy : cand :=
  {| c_tag := 0; c_as := 0; c_localas := 0; c_id := 0; c_localid := 0; c_addr := None; c_confed := false; c_pid := 0;
     c_llgr := false; c_nhinv := false; c_lp := 0; c_segs := []; c_origin := 0; c_med := 0; c_ts := 0 |}.

Definition insert_sorted (o : opts) (l : list cand) (c : cand) : list cand :=
  let idx := sort_search (length l) (fun i => ins_pred o c (nth i l dummy)) in
  firstn idx l ++ c :: skipn idx l.

(* implicitWithdraw: remove the first entry with the same source and path id *)
Fixpoint remove_first (c : cand) (l : list cand) : list cand :=
  match l with
  | [] => []
  | x :: r => if same_key c x then r else x :: remove_first c r
  end.
(* explicitWithdraw: remove the LAST matching entry (the loop does not break) *)
Definition remove_last (c : cand) (l : list cand) : list cand := rev (remove_first c (rev l)).

Inductive op := Announce (c : cand) | Withdraw (c : cand).   (* Withdraw: only source and pid matter *)

Definition calc (o : opts) (l : list cand) (e : op) : list cand :=
  match e with
  | Announce c => insert_sorted o (remove_first c l) c
  | Withdraw c => remove_last c l
  end.

Definition run (o : opts) (h : list op) : list cand := fold_left (calc o) h [].

(* GetBestPath for the global RIB *)
Definition best (l : list cand) : option cand :=
  match l with [] => None | c :: _ => if c_nhinv c then None else Some c end.

(* Path.Compare (result compared with 0 only) *)
Definition compare_eq0 (a b : cand) : bool :=
  Bool.eqb (is_local a) (is_local b) && Bool.eqb (is_ibgp a) (is_ibgp b) &&
  (c_lp a =? c_lp b) && (aslen (c_segs a) =? aslen (c_segs b)) &&
  (c_origin a =? c_origin b) && (c_med a =? c_med b).

(* getMultiBestPath (after "fix: multipath set must be the leading run ..."): the leading run of
   reachable paths that compare equal to the best path *)
Fixpoint take_equal (b : cand) (l : list cand) : list cand :=
  match l with
  | [] => []
  | x :: r => if c_nhinv x || negb (compare_eq0 x b) then [] else x :: take_equal b r
  end.
Definition multi (l : list cand) : list cand :=
  match l with
  | [] => []
  | b :: r => if c_nhinv b then [] else b :: take_equal b r
  end.
