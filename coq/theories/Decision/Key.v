(* The comparator chain of insertSort is the documented decision process: a lexicographic
   comparison of a per-candidate key, under the pairwise compatibility hypotheses. *)
From Coq Require Import List ZArith Bool Lia.
From Verif Require Import Decision.Model.
Import ListNotations.
Open Scope Z_scope.

Definition b2z (b : bool) : Z := if b then 1 else 0.
Definition addrz (c : cand) : Z := match c_addr c with None => -1 | Some x => x end.

(* The documented decision process, most significant first:
   not LLGR-stale; reachable next hop; highest LOCAL_PREF; locally originated; shortest AS_PATH
   (unless ignored); lowest ORIGIN; lowest MED; external over internal (confederation members count
   as internal); oldest (external) / lowest router-id (internal, or everybody with
   external-compare-router-id); lowest neighbour address. *)
Definition key (o : opts) (c : cand) : list Z :=
  [ b2z (c_llgr c); b2z (c_nhinv c); - c_lp c; b2z (negb (is_local c));
    (if o_ignore_aslen o then 0 else aslen (c_segs c)); c_origin c; c_med c; b2z (group_i c);
    (if o_ext_rid o || is_ibgp c then c_id c else c_ts c); addrz c ].

Fixpoint lex (k1 k2 : list Z) : comparison :=
  match k1, k2 with
  | x :: r1, y :: r2 => match x ?= y with Eq => lex r1 r2 | c => c end
  | _, _ => Eq
  end.

Definition not_gt (c : comparison) : bool := match c with Gt => false | _ => true end.
Definition pref_le (o : opts) (a b : cand) : bool := not_gt (lex (key o a) (key o b)).
Definition pref_lt (o : opts) (a b : cand) : Prop := lex (key o a) (key o b) = Lt.

(* pairwise hypotheses under which the property claims order independence *)
Definition kinds_ok (o : opts) (a b : cand) : bool :=
  o_ext_rid o || negb (group_i a && group_i b && negb (Bool.eqb (is_ibgp a) (is_ibgp b))).
Definition addr_nonneg (c : cand) : bool := match c_addr c with None => true | Some x => 0 <=? x end.
(* distinct sources are told apart by their neighbour address (the local source has none) *)
Definition compat (o : opts) (a b : cand) : bool :=
  negb (opt_eqb (c_addr a) (c_addr b)) &&
  med_applies o a b && kinds_ok o a b && addr_nonneg a && addr_nonneg b.

Lemma compat_sources o a b : compat o a b = true -> same_source a b = false /\ is_local a && is_local b = false.
Proof.
  unfold compat. rewrite !andb_true_iff, negb_true_iff. intros [[[[H _] _] _] _]. split.
  - unfold same_source. rewrite H. now rewrite andb_false_r.
  - unfold is_local. destruct (c_addr a), (c_addr b); simpl in *; auto.
Qed.

(* ---- lex facts ---- *)
Lemma lex_refl k : lex k k = Eq.
Proof. induction k as [|x k IH]; simpl; [reflexivity|]. now rewrite Z.compare_refl. Qed.

Lemma lex_antisym k1 : forall k2, lex k2 k1 = CompOpp (lex k1 k2).
Proof.
  induction k1 as [|x k1 IH]; intros [|y k2]; simpl; try reflexivity.
  rewrite (Z.compare_antisym x y). destruct (x ?= y); simpl; auto.
Qed.

Lemma lex_trans k1 : forall k2 k3, length k1 = length k2 -> length k2 = length k3 ->
  lex k1 k2 = Lt -> lex k2 k3 = Lt -> lex k1 k3 = Lt.
Proof.
  induction k1 as [|x k1 IH]; intros [|y k2] [|z k3] H1 H2; simpl in *; try discriminate; try congruence.
  injection H1 as H1; injection H2 as H2.
  destruct (x ?= y) eqn:E1; destruct (y ?= z) eqn:E2; intros A B; try discriminate.
  - apply Z.compare_eq in E1, E2. subst. rewrite Z.compare_refl. eapply IH; eauto.
  - apply Z.compare_eq in E1. subst. now rewrite E2.
  - apply Z.compare_eq in E2. subst. now rewrite E1.
  - rewrite Z.compare_lt_iff in *. assert (x < z) by lia. apply Z.compare_lt_iff in H. now rewrite H.
Qed.

Lemma lex_eq k1 : forall k2, length k1 = length k2 -> lex k1 k2 = Eq -> k1 = k2.
Proof.
  induction k1 as [|x k1 IH]; intros [|y k2] H; simpl in *; try discriminate; [reflexivity|].
  injection H as H. destruct (x ?= y) eqn:E; try discriminate. intros A. apply Z.compare_eq in E. subst. f_equal. apply IH; auto.
Qed.

Lemma key_length o c : length (key o c) = 10%nat.
Proof. reflexivity. Qed.

(* ---- one level of the chain ---- *)
Lemma by_z_low_spec x y :
  by_z_low x y = match x ?= y with Eq => None | Lt => Some true | Gt => Some false end.
Proof.
  unfold by_z_low. destruct (x ?= y) eqn:E.
  - apply Z.compare_eq in E. subst. now rewrite Z.eqb_refl.
  - rewrite Z.compare_lt_iff in E. destruct (x =? y) eqn:E1; [lia|]. destruct (x <? y) eqn:E2; [reflexivity|lia].
  - rewrite Z.compare_gt_iff in E. destruct (x =? y) eqn:E1; [lia|]. destruct (x <? y) eqn:E2; [lia|reflexivity].
Qed.

Lemma chain_step (c : cand -> cand -> option bool) r a b x y k1 k2 :
  c a b = by_z_low x y ->
  (x = y -> run_chain r a b = not_gt (lex k1 k2)) ->
  run_chain (c :: r) a b = not_gt (lex (x :: k1) (y :: k2)).
Proof.
  intros Hc Hr. cbn [run_chain lex]. rewrite Hc, by_z_low_spec.
  destruct (x ?= y) eqn:E; try reflexivity. apply Z.compare_eq in E. auto.
Qed.

Lemma b2z_inj b1 b2 : b2z b1 = b2z b2 -> b1 = b2.
Proof. destruct b1, b2; simpl; intros; congruence || lia. Qed.

(* ---- the levels ---- *)
Lemma lvl_llgr a b : cmp_llgr a b = by_z_low (b2z (c_llgr a)) (b2z (c_llgr b)).
Proof. unfold cmp_llgr; destruct (c_llgr a), (c_llgr b); reflexivity. Qed.
Lemma lvl_nexthop a b : cmp_nexthop a b = by_z_low (b2z (c_nhinv a)) (b2z (c_nhinv b)).
Proof. unfold cmp_nexthop; destruct (c_nhinv a), (c_nhinv b); reflexivity. Qed.
Lemma lvl_localpref a b : cmp_localpref a b = by_z_low (- c_lp a) (- c_lp b).
Proof.
  unfold cmp_localpref. rewrite by_z_low_spec.
  destruct (c_lp b <? c_lp a) eqn:E1.
  - assert (H : (- c_lp a ?= - c_lp b) = Lt) by (apply Z.compare_lt_iff; lia). now rewrite H.
  - destruct (c_lp a <? c_lp b) eqn:E2.
    + assert (H : (- c_lp a ?= - c_lp b) = Gt) by (apply Z.compare_gt_iff; lia). now rewrite H.
    + assert (H : (- c_lp a ?= - c_lp b) = Eq) by (apply Z.compare_eq_iff; lia). now rewrite H.
Qed.
Lemma lvl_localorigin a b : same_source a b = false -> is_local a && is_local b = false ->
  cmp_localorigin a b = by_z_low (b2z (negb (is_local a))) (b2z (negb (is_local b))).
Proof.
  intros Hs Hl. unfold cmp_localorigin. rewrite Hs. destruct (is_local a), (is_local b); try reflexivity. discriminate.
Qed.
Lemma lvl_aspath o a b :
  cmp_aspath o a b = by_z_low (if o_ignore_aslen o then 0 else aslen (c_segs a)) (if o_ignore_aslen o then 0 else aslen (c_segs b)).
Proof.
  unfold cmp_aspath. destruct (o_ignore_aslen o); [reflexivity|]. rewrite by_z_low_spec.
  set (x := aslen (c_segs a)); set (y := aslen (c_segs b)).
  destruct (y <? x) eqn:E1.
  - assert (H : (x ?= y) = Gt) by (apply Z.compare_gt_iff; lia). now rewrite H.
  - destruct (x <? y) eqn:E2.
    + assert (H : (x ?= y) = Lt) by (apply Z.compare_lt_iff; lia). now rewrite H.
    + assert (H : (x ?= y) = Eq) by (apply Z.compare_eq_iff; lia). now rewrite H.
Qed.
Lemma lvl_med o a b : med_applies o a b = true -> cmp_med o a b = by_z_low (c_med a) (c_med b).
Proof. unfold cmp_med; now intros ->. Qed.
Lemma lvl_asnumber a b : cmp_asnumber a b = by_z_low (b2z (group_i a)) (b2z (group_i b)).
Proof. unfold cmp_asnumber; destruct (group_i a), (group_i b); reflexivity. Qed.

(* the last three comparators (age, router-id, neighbour address) against the last two key components *)
Lemma lvl_tail o a b :
  is_local a = false -> is_local b = false -> group_i a = group_i b -> kinds_ok o a b = true ->
  run_chain [cmp_age o; cmp_routerid o; cmp_neighbor] a b =
  not_gt (lex [if o_ext_rid o || is_ibgp a then c_id a else c_ts a; addrz a]
              [if o_ext_rid o || is_ibgp b then c_id b else c_ts b; addrz b]).
Proof.
  intros La Lb Hg Hk. unfold is_local in La, Lb. unfold addrz, kinds_ok in *.
  destruct (c_addr a) as [xa|] eqn:Ea; [|discriminate]. destruct (c_addr b) as [xb|] eqn:Eb; [|discriminate].
  cbn [run_chain]. unfold cmp_age, cmp_routerid, cmp_neighbor, is_local. rewrite Ea, Eb.
  cbn [lex andb]. rewrite !by_z_low_spec.
  destruct (o_ext_rid o); cbn [negb andb orb].
  - rewrite !andb_false_r. cbn. destruct (c_id a ?= c_id b); try reflexivity. destruct (xa ?= xb); reflexivity.
  - rewrite <- Hg in Hk. destruct (is_ibgp a) eqn:Ia, (is_ibgp b) eqn:Ib; cbn in *.
    + destruct (c_id a ?= c_id b); try reflexivity. destruct (xa ?= xb); reflexivity.
    + exfalso. unfold group_i in *. rewrite Ia, Ib in *. destruct (c_confed a), (c_confed b); cbn in *; discriminate.
    + exfalso. unfold group_i in *. rewrite Ia, Ib in *. destruct (c_confed a), (c_confed b); cbn in *; discriminate.
    + destruct (c_ts a ?= c_ts b); try reflexivity. destruct (xa ?= xb); reflexivity.
Qed.

Theorem chain_is_key o a b : compat o a b = true -> ins_pred o a b = pref_le o a b.
Proof.
  intros Hc. destruct (compat_sources _ _ _ Hc) as [Hs Hl]. revert Hc.
  unfold compat. rewrite !andb_true_iff, !negb_true_iff. intros [[[[_ Hm] Hk] Ha] Hb].
  unfold ins_pred, pref_le, chain, key.
  apply chain_step; [apply lvl_llgr|intros _].
  apply chain_step; [apply lvl_nexthop|intros _].
  apply chain_step; [apply lvl_localpref|intros _].
  apply chain_step; [now apply lvl_localorigin|intros Hloc].
  apply chain_step; [apply lvl_aspath|intros _].
  apply chain_step; [unfold cmp_origin; reflexivity|intros _].
  apply chain_step; [now apply lvl_med|intros _].
  apply chain_step; [apply lvl_asnumber|intros Hg].
  apply b2z_inj in Hloc, Hg.
  assert (is_local a = false /\ is_local b = false) as [La Lb].
  { destruct (is_local a), (is_local b); simpl in *; try discriminate; auto. }
  now apply lvl_tail.
Qed.

(* distinct sources have distinct keys, so the preference is strict between them *)
Lemma compat_strict o a b : compat o a b = true -> lex (key o a) (key o b) <> Eq.
Proof.
  intros Hc E. apply lex_eq in E; [|reflexivity].
  unfold compat in Hc. rewrite !andb_true_iff, negb_true_iff in Hc. destruct Hc as [[[[H _] _] Ha] Hb].
  unfold key in E. injection E as _ _ _ _ _ _ _ _ _ E.
  unfold addrz, addr_nonneg in *. destruct (c_addr a), (c_addr b); simpl in *; try discriminate.
  - subst. now rewrite Z.eqb_refl in H.
  - apply Z.leb_le in Ha. lia.
  - apply Z.leb_le in Hb. lia.
Qed.
