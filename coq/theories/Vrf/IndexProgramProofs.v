(* C17: a program that passes program_ok, run for an update of a table whose paths carry no path identifier, performs
   exactly the index step of Vrf/Index.v; and the program REGENERATED from updateVPNIdx passes program_ok. *)
From Coq Require Import List ZArith Bool.
From Verif Require Import Vrf.Model Vrf.Index Vrf.IndexProgram Generated.C17Idx.
Import ListNotations.
Open Scope Z_scope.

Lemma ivar_eqb_eq a b : ivar_eqb a b = true -> a = b.
Proof. destruct a, b; cbn; congruence. Qed.
Lemma acts_eqb_eq a : forall b, acts_eqb a b = true -> a = b.
Proof.
  induction a as [|x r IH]; intros [|y s] H; cbn in H; try discriminate; [reflexivity|].
  apply andb_true_iff in H. destruct H as (H1 & H2). rewrite (IH s H2). f_equal.
  destruct x, y; cbn in H1; try discriminate; f_equal; now apply ivar_eqb_eq.
Qed.

Lemma program_ok_trace p w sm ob nb : program_ok p = true ->
  exists r, trace 50 (plain_flags w sm ob nb) p = Some (expected (plain_flags w sm ob nb), r).
Proof.
  unfold program_ok. intros H.
  assert (Hb : forall b, In b bools) by (intros [|]; cbn; auto).
  rewrite forallb_forall in H. specialize (H w (Hb w)). rewrite forallb_forall in H. specialize (H sm (Hb sm)).
  rewrite forallb_forall in H. specialize (H ob (Hb ob)). rewrite forallb_forall in H. specialize (H nb (Hb nb)).
  destruct (trace 50 (plain_flags w sm ob nb) p) as [[a r]|]; [|discriminate]. exists r. now rewrite (acts_eqb_eq _ _ H).
Qed.

Definition is_some {A} (o : option A) : bool := match o with Some _ => true | None => false end.

(* the call made for an update of destination k: candidate list nl, selected path the same object or not *)
Theorem ok_program_is_istep p s k nl same withdraw oldp newp : program_ok p = true ->
  run_program p (plain_flags withdraw same (is_some (best (i_cands s) k)) (is_some (hd_error nl)))
              (mkVals oldp newp (ent k (best (i_cands s) k)) (ent k (hd_error nl))) (i_idx s)
  = Some (i_idx (istep s (IUpd k nl same))).
Proof.
  intros H. unfold run_program.
  destruct (program_ok_trace p withdraw same (is_some (best (i_cands s) k)) (is_some (hd_error nl)) H) as (r & ->).
  f_equal. unfold expected, plain_flags. cbn [f_same_object f_old_best_plain f_new_best_plain istep i_idx].
  destruct same; [reflexivity|].
  destruct (best (i_cands s) k) as [o|]; destruct (hd_error nl) as [n|]; cbn [is_some app apply_acts var_val v_old_best v_new_best ent option_map unreg reg]; reflexivity.
Qed.

(* the regenerated program: decided by computation over the 16 combinations (fails at once when updateVPNIdx changes shape) *)
Theorem generated_program_ok : program_ok vpnidx_program = true.
Proof. vm_compute. reflexivity. Qed.

Corollary generated_update_is_istep s k nl same withdraw oldp newp :
  run_program vpnidx_program (plain_flags withdraw same (is_some (best (i_cands s) k)) (is_some (hd_error nl)))
              (mkVals oldp newp (ent k (best (i_cands s) k)) (ent k (hd_error nl))) (i_idx s)
  = Some (i_idx (istep s (IUpd k nl same))).
Proof. apply ok_program_is_istep. exact generated_program_ok. Qed.
