(* C17 -- the statement language in which go/translator renders Table.updateVPNIdx (Generated/C17Idx.v), and its meaning
   over the index of Vrf/Index.v.  A program is first run on the BOOLEAN facts of a call (is there an index, does the new
   path carry a path identifier, is it a withdrawal, is the selected path the same object before and after, are the
   selected paths non-nil and without identifier): that yields a list of register / unregister actions, a first-order
   value that can be compared by computation.  The actions are then applied to the index.  Definitions only. *)
From Coq Require Import List ZArith Bool.
From Verif Require Import Vrf.Model Vrf.Index.
Import ListNotations.
Open Scope Z_scope.

Inductive icond := CIdxNil | CAddPath | CWithdraw | CBestChanged | COldBestPlain | CNewBestPlain | CHasList | CUnknown.
Inductive ivar := VOldPath | VNewPath | VOldBest | VNewBest | VUnknown.
Inductive istmt :=
| SReturn | SBind | SUnknown
| SUnreg (v : ivar) | SReg (v : ivar)
| SIf (c : icond) (th el : list istmt).

Record iflags := mkFl { f_idx_nil : bool; f_addpath : bool; f_withdraw : bool; f_same_object : bool;
                        f_old_best_plain : bool; f_new_best_plain : bool }.
Inductive iact := AUnreg (v : ivar) | AReg (v : ivar).

Definition cond_val (e : iflags) (c : icond) : option bool :=
  match c with
  | CIdxNil => Some (f_idx_nil e)
  | CAddPath => Some (f_addpath e)
  | CWithdraw => Some (f_withdraw e)
  | CBestChanged => Some (negb (f_same_object e))
  | COldBestPlain => Some (f_old_best_plain e)
  | CNewBestPlain => Some (f_new_best_plain e)
  | CHasList | CUnknown => None
  end.
Definition var_known (v : ivar) : bool := match v with VUnknown => false | _ => true end.

(* None: something unknown on the executed path, or out of fuel; Some (actions in order, returned early) *)
Fixpoint trace (fuel : nat) (e : iflags) (p : list istmt) : option (list iact * bool) :=
  match fuel with
  | O => None
  | S f =>
      match p with
      | [] => Some ([], false)
      | s :: r =>
          match s with
          | SReturn => Some ([], true)
          | SBind => trace f e r
          | SUnknown => None
          | SUnreg v => if var_known v then match trace f e r with Some (a, b) => Some (AUnreg v :: a, b) | None => None end else None
          | SReg v => if var_known v then match trace f e r with Some (a, b) => Some (AReg v :: a, b) | None => None end else None
          | SIf c th el =>
              match cond_val e c with
              | None => None
              | Some b =>
                  match trace f e (if b then th else el) with
                  | Some (a, true) => Some (a, true)
                  | Some (a, false) => match trace f e r with Some (a2, b2) => Some (a ++ a2, b2) | None => None end
                  | None => None
                  end
              end
          end
      end
  end.

(* the values of a call *)
Record ivals := mkVals { v_old_path : option entry; v_new_path : option entry; v_old_best : option entry; v_new_best : option entry }.
Definition var_val (e : ivals) (v : ivar) : option entry :=
  match v with VOldPath => v_old_path e | VNewPath => v_new_path e | VOldBest => v_old_best e | VNewBest => v_new_best e | VUnknown => None end.
Fixpoint apply_acts (e : ivals) (l : list iact) (idx : Z -> list entry) : Z -> list entry :=
  match l with
  | [] => idx
  | AUnreg v :: r => apply_acts e r (unreg (var_val e v) idx)
  | AReg v :: r => apply_acts e r (reg (var_val e v) idx)
  end.
Definition run_program (p : list istmt) (fl : iflags) (vals : ivals) (idx : Z -> list entry) : option (Z -> list entry) :=
  match trace 50 fl p with Some (a, _) => Some (apply_acts vals a idx) | None => None end.

(* ---- what the program has to do on a table whose paths carry no path identifier: the 16 combinations of
   (withdrawal, same object, old selected path present, new selected path present) *)
Definition plain_flags (withdraw same ob nb : bool) : iflags := mkFl false false withdraw same ob nb.
Definition expected (fl : iflags) : list iact :=
  if f_same_object fl then []
  else (if f_old_best_plain fl then [AUnreg VOldBest] else []) ++ (if f_new_best_plain fl then [AReg VNewBest] else []).
Definition ivar_eqb (a b : ivar) : bool :=
  match a, b with VOldPath, VOldPath | VNewPath, VNewPath | VOldBest, VOldBest | VNewBest, VNewBest | VUnknown, VUnknown => true | _, _ => false end.
Definition iact_eqb (a b : iact) : bool :=
  match a, b with AUnreg x, AUnreg y | AReg x, AReg y => ivar_eqb x y | _, _ => false end.
Fixpoint acts_eqb (a b : list iact) : bool :=
  match a, b with [] , [] => true | x :: r, y :: s => iact_eqb x y && acts_eqb r s | _, _ => false end.
Definition bools : list bool := [true; false].
Definition program_ok (p : list istmt) : bool :=
  forallb (fun w => forallb (fun sm => forallb (fun ob => forallb (fun nb =>
    match trace 50 (plain_flags w sm ob nb) p with
    | Some (a, _) => acts_eqb a (expected (plain_flags w sm ob nb))
    | None => false
    end) bools) bools) bools) bools.
