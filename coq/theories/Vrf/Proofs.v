(* C17 -- proofs about Vrf.Model. *)
From Coq Require Import List ZArith Bool Lia.
From Verif Require Import Vrf.Model.
Import ListNotations.
Open Scope Z_scope.

Lemma zmem_In x l : zmem x l = true <-> In x l.
Proof.
  unfold zmem. rewrite existsb_exists. split.
  - intros (y & Hy & E). apply Z.eqb_eq in E. now subst.
  - intros H. exists x. split; [exact H|apply Z.eqb_refl].
Qed.

(* ---- VRF import / export *)
Theorem vrf_view_exact v rs r :
  In r (vrf_view v rs) <-> In r rs /\ exists t, In t (vr_rts r) /\ In t (v_imp v).
Proof.
  unfold vrf_view, can_import. rewrite filter_In, existsb_exists. split.
  - intros [H (t & Ht & Hm)]. split; [exact H|]. exists t. split; [exact Ht|now apply zmem_In].
  - intros [H (t & Ht & Hm)]. split; [exact H|]. exists t. split; [exact Ht|now apply zmem_In].
Qed.

Theorem export_carries_vrf_identity v prefix :
  vr_rd (to_global v prefix) = v_rd v /\ vr_label (to_global v prefix) = v_label v /\
  vr_rts (to_global v prefix) = v_exp v /\ vr_prefix (to_global v prefix) = prefix /\ vr_src (to_global v prefix) = 0.
Proof. repeat split. Qed.

(* a route exported by one VRF is imported by another exactly when export and import targets intersect *)
Theorem vrf_leak v w prefix : can_import w (to_global v prefix) = true <-> exists t, In t (v_exp v) /\ In t (v_imp w).
Proof.
  unfold can_import. cbn [to_global vr_rts]. rewrite existsb_exists. split; intros (t & A & B); exists t; split; auto; now apply zmem_In.
Qed.

(* ---- Route Target Constraint *)
Theorem interested_spec m r :
  interested m r = true <->
  (exists a, In (a, None) m) \/ (exists t a, In t (vr_rts r) /\ In (a, Some t) m).
Proof.
  unfold interested, has_default, has_rt. rewrite orb_true_iff, !existsb_exists. split.
  - intros [((a, [t|]) & H & E)|(t & Ht & H)]; try discriminate.
    + left. exists a. exact H.
    + right. apply existsb_exists in H. destruct H as ((a, [y|]) & Hin & E); try discriminate. apply Z.eqb_eq in E. subst y.
      exists t, a. auto.
  - intros [(a & H)|(t & a & Ht & H)].
    + left. exists (a, None). auto.
    + right. exists t. split; [exact Ht|]. apply existsb_exists. exists (a, Some t). split; [exact H|apply Z.eqb_refl].
Qed.

Definition Inv (peers : list Z) (s : rstate) : Prop :=
  forall p k, In p peers -> t_view s p k = should_hold s p k.
Definition Quiet (peers : list Z) (s : rstate) : Prop :=
  forall p k, ~ In p peers -> t_view s p k = false.

Lemma fan_spec m p old new held :
  held = match old with Some o => sendable m p o | None => false end ->
  fan m p old new held = match new with Some x => sendable m p x | None => false end.
Proof.
  intros ->. unfold fan, sendable. destruct new as [x|].
  - destruct (vr_src x =? p) eqn:Ex.
    + rewrite andb_false_r. destruct old as [o|]; [|reflexivity]. destruct (vr_src o =? p); [now rewrite andb_false_r|reflexivity].
    + destruct (interested m x) eqn:Ix; [reflexivity|]. cbn. destruct old as [o|]; [|reflexivity].
      destruct (interested m o); reflexivity.
  - destruct old as [o|]; [|reflexivity]. destruct (interested m o && negb (vr_src o =? p)); reflexivity.
Qed.

Lemma has_rt_cons x l t : has_rt (x :: l) t = (match snd x with Some y => y =? t | None => false end) || has_rt l t.
Proof. reflexivity. Qed.

Lemma known_add_interested l m r :
  interested (m :: l) r = interested l r || carries m r.
Proof.
  unfold interested, carries, rt_of, has_default. destruct m as [a [t|]]; cbn [snd existsb].
  - rewrite orb_false_l. rewrite <- orb_assoc. f_equal.
    induction (vr_rts r) as [|u us IH]; cbn [existsb zmem]; [reflexivity|].
    fold (zmem t us). rewrite has_rt_cons. cbn [snd]. rewrite IH.
    rewrite (Z.eqb_sym t u). destruct (u =? t), (has_rt l u), (existsb (has_rt l) us), (zmem t us); reflexivity.
  - cbn. now rewrite orb_true_r.
Qed.

Lemma exists_known l m : existsb (ms_eqb m) l = true -> known l m = true.
Proof.
  unfold known, rt_of, has_rt, has_default. rewrite existsb_exists. intros (x & Hin & E).
  unfold ms_eqb in E. apply andb_true_iff in E. destruct E as [_ E].
  destruct m as [a [t|]], x as [b [y|]]; cbn in *; try discriminate; apply existsb_exists; exists (b, y) || idtac.
  - exists (b, Some y). split; [exact Hin|]. cbn. now rewrite Z.eqb_sym.
  - exists (b, None). split; [exact Hin|reflexivity].
Qed.

(* when the target was known before, a further membership for it changes nothing the peer is interested in *)
Lemma known_interested_same l m r : known l m = true -> interested (m :: l) r = interested l r.
Proof.
  intros K. rewrite known_add_interested. unfold known, carries, rt_of in *. destruct m as [a [t|]]; cbn [snd] in *.
  - destruct (zmem t (vr_rts r)) eqn:Z; [|now rewrite orb_false_r]. rewrite orb_true_r. symmetry.
    unfold interested. apply orb_true_iff. right. apply existsb_exists. exists t. split; [now apply zmem_In|exact K].
  - unfold interested. now rewrite K.
Qed.

Lemma not_carried_same l m r : carries m r = false -> interested (m :: l) r = interested l r.
Proof. intros C. rewrite known_add_interested, C. now rewrite orb_false_r. Qed.

(* removing a membership: interest can only shrink, and only for routes carrying its target; it is unchanged when the
   target is still known afterwards *)
Lemma remove1_subset m l x : In x (remove1 m l) -> In x l.
Proof. induction l as [|y l IH]; cbn; [auto|]. destruct (ms_eqb y m); [auto|]. intros [E|H]; auto. Qed.

Lemma interested_mono l l' r : (forall x, In x l -> In x l') -> interested l r = true -> interested l' r = true.
Proof.
  intros S H. apply interested_spec in H. apply interested_spec. destruct H as [(a & H)|(t & a & Ht & H)].
  - left. exists a. auto.
  - right. exists t, a. auto.
Qed.

Lemma ms_eqb_eq x m : ms_eqb x m = true -> x = m.
Proof.
  unfold ms_eqb. destruct x as [a [t|]], m as [b [u|]]; cbn; intros H; apply andb_true_iff in H; destruct H as [E1 E2]; try discriminate;
    apply Z.eqb_eq in E1; subst; [apply Z.eqb_eq in E2; now subst|reflexivity].
Qed.

Lemma remove1_other m l x : In x l -> x <> m -> In x (remove1 m l).
Proof.
  induction l as [|y l IH]; cbn; [auto|]. intros [->|H] N.
  - destruct (ms_eqb x m) eqn:E; [apply ms_eqb_eq in E; contradiction|left; reflexivity].
  - destruct (ms_eqb y m); [exact H|right; auto].
Qed.

Lemma remove_interest l m r :
  interested l r = true -> interested (remove1 m l) r = false -> carries m r = true.
Proof.
  intros H N. apply interested_spec in H. unfold carries, rt_of.
  destruct H as [(a & H)|(t & a & Ht & H)].
  - destruct (ms_eqb (a, None) m) eqn:E.
    + apply ms_eqb_eq in E. subst m. reflexivity.
    + assert (In (a, None) (remove1 m l)). { apply remove1_other; [exact H|]. intros <-. unfold ms_eqb in E. cbn in E. now rewrite Z.eqb_refl in E. }
      assert (interested (remove1 m l) r = true) by (apply interested_spec; left; eauto). congruence.
  - destruct (ms_eqb (a, Some t) m) eqn:E.
    + apply ms_eqb_eq in E. subst m. cbn. now apply zmem_In.
    + assert (In (a, Some t) (remove1 m l)). { apply remove1_other; [exact H|]. intros <-. unfold ms_eqb in E. cbn in E. now rewrite !Z.eqb_refl in E. }
      assert (interested (remove1 m l) r = true) by (apply interested_spec; right; eauto). congruence.
Qed.

Lemma known_after_same l m r :
  known (remove1 m l) m = true -> interested (remove1 m l) r = interested l r.
Proof.
  intros K. destruct (interested l r) eqn:I.
  - destruct (interested (remove1 m l) r) eqn:J; [reflexivity|]. exfalso.
    pose proof (remove_interest l m r I J) as C.
    unfold known, carries, rt_of in *. destruct m as [a [t|]]; cbn [snd] in *.
    + assert (interested (remove1 (a, Some t) l) r = true); [|congruence].
      unfold interested. apply orb_true_iff. right. apply existsb_exists. exists t. split; [now apply zmem_In|exact K].
    + assert (interested (remove1 (a, None) l) r = true); [|congruence]. unfold interested. now rewrite K.
  - destruct (interested (remove1 m l) r) eqn:J; [|reflexivity].
    rewrite (interested_mono _ l r (remove1_subset m l) J) in I. discriminate.
Qed.

Lemma step_inv peers s e : Inv peers s -> Inv peers (step peers s e).
Proof.
  intros H p k Hp. assert (Zp : zmem p peers = true) by (now apply zmem_In).
  destruct e as [key r|key|q m|q m]; cbn [step]; unfold should_hold; cbn [t_route t_mem t_view].
  - destruct (Z.eqb_spec k key) as [->|N]; cbn [andb].
    + rewrite Zp. apply fan_spec. rewrite (H p key Hp). reflexivity.
    + destruct (Z.eqb_spec k key); [contradiction|]. apply (H p k Hp).
  - destruct (Z.eqb_spec k key) as [->|N]; cbn [andb].
    + rewrite Zp. apply fan_spec. rewrite (H p key Hp). reflexivity.
    + destruct (Z.eqb_spec k key); [contradiction|]. apply (H p k Hp).
  - destruct (zmem q peers) eqn:Zq; [|apply (H p k Hp)]. cbn [t_route t_mem t_view].
    destruct (Z.eqb_spec p q) as [->|N]; cbn [andb].
    + rewrite ?Z.eqb_refl. pose proof (H q k Hp) as Hk. unfold should_hold in Hk.
      destruct (existsb (ms_eqb m) (t_mem s q)) eqn:Ex.
      * rewrite (exists_known _ _ Ex). cbn [negb]. exact Hk.
      * destruct (known (t_mem s q) m) eqn:K; cbn [negb].
        -- rewrite Hk. destruct (t_route s k) as [r|]; [|reflexivity]. unfold sendable. now rewrite (known_interested_same _ _ _ K).
        -- destruct (t_route s k) as [r|]; [|exact Hk]. destruct (carries m r) eqn:C; cbn [andb].
           ++ destruct (sendable (m :: t_mem s q) q r) eqn:S; [reflexivity|].
              rewrite Hk. unfold sendable in *. rewrite known_add_interested, C, orb_true_r in S. cbn in S.
              rewrite S. now rewrite andb_false_r.
           ++ rewrite Hk. unfold sendable. now rewrite (not_carried_same _ _ _ C).
    + apply (H p k Hp).
  - destruct (zmem q peers) eqn:Zq; [|apply (H p k Hp)]. cbn [t_route t_mem t_view].
    destruct (Z.eqb_spec p q) as [->|N]; cbn [andb].
    + rewrite ?Z.eqb_refl. pose proof (H q k Hp) as Hk. unfold should_hold in Hk.
      destruct (known (remove1 m (t_mem s q)) m) eqn:K; cbn [negb].
      * rewrite Hk. destruct (t_route s k) as [r|]; [|reflexivity]. unfold sendable. now rewrite (known_after_same _ _ r K).
      * destruct (t_route s k) as [r|]; [|exact Hk]. unfold sendable in *.
        destruct (interested (remove1 m (t_mem s q)) r) eqn:J.
        -- rewrite andb_false_r. rewrite Hk. now rewrite (interested_mono _ _ r (remove1_subset m (t_mem s q)) J).
        -- cbn [negb andb]. destruct (carries m r) eqn:C; [reflexivity|]. cbn [andb]. rewrite Hk.
           destruct (interested (t_mem s q) r) eqn:I; [|reflexivity].
           rewrite (remove_interest _ _ _ I J) in C. discriminate.
    + apply (H p k Hp).
Qed.

(* after every history, every RTC peer holds exactly the routes it has a membership for (and did not send itself) *)
Theorem rtc_exact peers h : Inv peers (run peers h).
Proof.
  unfold run. assert (H : Inv peers init) by (intros p k _; reflexivity).
  revert H. generalize init. induction h as [|e h IH]; intros s H; cbn [fold_left]; [exact H|]. apply IH. now apply step_inv.
Qed.

(* a membership event of one peer changes nothing for any other peer, and nothing in the VPN table *)
Theorem membership_frame peers s q m e : e = MAdd q m \/ e = MDel q m ->
  (forall k, t_route (step peers s e) k = t_route s k) /\
  (forall p k, p <> q -> t_view (step peers s e) p k = t_view s p k) /\
  (forall p, p <> q -> t_mem (step peers s e) p = t_mem s p).
Proof.
  intros [-> | ->]; cbn [step]; destruct (zmem q peers); cbn; repeat split; auto; intros p; intros;
    destruct (Z.eqb_spec p q); try contradiction; reflexivity.
Qed.
