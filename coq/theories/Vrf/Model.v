(* C17 -- executable model of VRF import/export and of Route Target Constraint (RFC 4684) distribution:
     internal/pkg/table/policy.go   CanImportToVrf
     internal/pkg/table/vrf.go      Vrf.ToGlobalPath (RD, label, export targets), table.go Select(VRF)
     internal/pkg/table/rtc.go      rtmSet (per peer: target -> accepted memberships), VPNPathIndex (GetPathsByRT)
     pkg/server/peer.go             interestedIn
     pkg/server/server.go           filterpath (the RTC block), processRTCMembership, rtcVPNCandidates
   Scope: one VPN route per key (route distinguisher + prefix) at a time, i.e. one source per key; what a peer holds is
   tracked as a set of keys (the attributes are C01/C09's subject); the deferral until the RTC End-of-RIB is not
   modelled (memberships arrive on an established session after it).  Definitions only. *)
From Coq Require Import List ZArith Bool.
Import ListNotations.
Open Scope Z_scope.

Definition zmem (x : Z) (l : list Z) : bool := existsb (Z.eqb x) l.

(* ---- VRFs *)
Record vrf := mkVrf { v_rd : Z; v_label : Z; v_imp : list Z; v_exp : list Z }.
Record vroute := mkVR { vr_rd : Z; vr_prefix : Z; vr_label : Z; vr_src : Z; vr_rts : list Z }.   (* vr_src 0 = local *)

Definition can_import (v : vrf) (r : vroute) : bool := existsb (fun t => zmem t (v_imp v)) (vr_rts r).
(* what ListPath(vrf) and the VRF's attached peers see: the prefixes of the matching routes *)
Definition vrf_view (v : vrf) (rs : list vroute) : list vroute := filter (can_import v) rs.
(* a route originated in the VRF, as it enters the global VPN table *)
Definition to_global (v : vrf) (prefix : Z) : vroute := mkVR (v_rd v) prefix (v_label v) 0 (v_exp v).

(* ---- Route Target Constraint *)
(* a membership NLRI: origin AS and target; the default membership is (0, None) *)
Definition mship : Type := Z * option Z.
Definition ms_eqb (a b : mship) : bool :=
  (fst a =? fst b) && match snd a, snd b with Some x, Some y => x =? y | None, None => true | _, _ => false end.
Definition has_default (m : list mship) : bool := existsb (fun x => match snd x with None => true | Some _ => false end) m.
Definition has_rt (m : list mship) (t : Z) : bool := existsb (fun x => match snd x with Some y => y =? t | None => false end) m.
Definition interested (m : list mship) (r : vroute) : bool := has_default m || existsb (has_rt m) (vr_rts r).

Record rstate := mkRT {
  t_route : Z -> option vroute;          (* key -> the route of the VPN table *)
  t_mem : Z -> list mship;               (* peer -> accepted memberships *)
  t_view : Z -> Z -> bool }.             (* peer, key -> the peer holds the route *)

Inductive event :=
| RAnn (key : Z) (r : vroute) | RWd (key : Z)
| MAdd (p : Z) (m : mship) | MDel (p : Z) (m : mship).

Definition sendable (m : list mship) (p : Z) (r : vroute) : bool := interested m r && negb (vr_src r =? p).

(* filterpath for peer p when the route of a key goes from old to new *)
Definition fan (m : list mship) (p : Z) (old new : option vroute) (held : bool) : bool :=
  match new with
  | Some x =>
      if vr_src x =? p then
        (* never back to its source; the old route is withdrawn when it came from elsewhere *)
        match old with Some o => if vr_src o =? p then held else false | None => held end
      else if interested m x then true
      else match old with Some o => if interested m o then false else held | None => held end
  | None =>
      match old with
      | Some o => if interested m o && negb (vr_src o =? p) then false else held
      | None => held
      end
  end.

Definition rt_of (m : mship) : option Z := snd m.
Definition known (l : list mship) (m : mship) : bool :=
  match rt_of m with Some t => has_rt l t | None => has_default l end.
Definition carries (m : mship) (r : vroute) : bool := match rt_of m with Some t => zmem t (vr_rts r) | None => true end.

Fixpoint remove1 (m : mship) (l : list mship) : list mship :=
  match l with [] => [] | x :: r => if ms_eqb x m then r else x :: remove1 m r end.

Definition step (peers : list Z) (s : rstate) (e : event) : rstate :=
  match e with
  | RAnn key r =>
      let old := t_route s key in
      mkRT (fun k => if k =? key then Some r else t_route s k) (t_mem s)
           (fun p k => if (k =? key) && zmem p peers then fan (t_mem s p) p old (Some r) (t_view s p k) else t_view s p k)
  | RWd key =>
      let old := t_route s key in
      mkRT (fun k => if k =? key then None else t_route s k) (t_mem s)
           (fun p k => if (k =? key) && zmem p peers then fan (t_mem s p) p old None (t_view s p k) else t_view s p k)
  | MAdd p m =>
      if zmem p peers then
        let before := known (t_mem s p) m in
        let mem' := fun q => if q =? p then (if existsb (ms_eqb m) (t_mem s p) then t_mem s p else m :: t_mem s p) else t_mem s q in
        mkRT (t_route s) mem'
             (fun q k => if (q =? p) && negb before then
                           (* the routes carrying the new target go through filterpath *)
                           match t_route s k with
                           | Some r => if carries m r && sendable (mem' p) p r then true else t_view s q k
                           | None => t_view s q k
                           end
                         else t_view s q k)
      else s
  | MDel p m =>
      if zmem p peers then
        let mem' := fun q => if q =? p then remove1 m (t_mem s p) else t_mem s q in
        let after := known (mem' p) m in
        mkRT (t_route s) mem'
             (fun q k => if (q =? p) && negb after then
                           (* the routes carrying the withdrawn target that the peer has no other membership for *)
                           match t_route s k with
                           | Some r => if carries m r && negb (interested (mem' p) r) then false else t_view s q k
                           | None => t_view s q k
                           end
                         else t_view s q k)
      else s
  end.

Definition init : rstate := mkRT (fun _ => None) (fun _ => []) (fun _ _ => false).
Definition run (peers : list Z) (h : list event) : rstate := fold_left (step peers) h init.

(* what the peer should hold *)
Definition should_hold (s : rstate) (p k : Z) : bool :=
  match t_route s k with Some r => sendable (t_mem s p) p r | None => false end.
