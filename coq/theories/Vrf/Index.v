(* C17 -- the Route Target index of a VPN table (internal/pkg/table/rtc.go VPNPathIndex, table.go updateVPNIdx) on a
   session without ADD-PATH: per target, the SELECTED path of every destination that carries the target.  Several
   sources may announce the same destination; the candidates of a destination are a list whose head is the selected
   path (best-path selection itself is C03's subject and is not constrained here: every list is allowed).
   An index entry is identified by (destination, source) -- the code uses the identity of the path object.
   Definitions and proofs. *)
From Coq Require Import List ZArith Bool Lia.
From Verif Require Import Vrf.Model.
Import ListNotations.
Open Scope Z_scope.

Definition entry : Type := Z * vroute.                       (* destination key, path *)
Definition ident_eqb (a b : entry) : bool := (fst a =? fst b) && (vr_src (snd a) =? vr_src (snd b)).

Record istate := mkI { i_cands : Z -> list vroute; i_idx : Z -> list entry }.

(* UnregisterPath / RegisterPath: for every target of the path *)
Definition unreg (e : option entry) (idx : Z -> list entry) : Z -> list entry :=
  match e with
  | None => idx
  | Some p => fun t => if zmem t (vr_rts (snd p)) then filter (fun x => negb (ident_eqb x p)) (idx t) else idx t
  end.
Definition reg (e : option entry) (idx : Z -> list entry) : Z -> list entry :=
  match e with
  | None => idx
  | Some p => fun t => if zmem t (vr_rts (snd p)) then p :: filter (fun x => negb (ident_eqb x p)) (idx t) else idx t
  end.

(* one table update of destination k: its candidate list becomes nl.  same_object: the selected path before and after
   is the very same object (oldBest == newBest), the index is then left alone *)
Inductive iev := IUpd (k : Z) (nl : list vroute) (same_object : bool).

Definition best (c : Z -> list vroute) (k : Z) : option vroute := hd_error (c k).
Definition ent (k : Z) (o : option vroute) : option entry := option_map (fun r => (k, r)) o.

Definition istep (s : istate) (e : iev) : istate :=
  match e with
  | IUpd k nl same =>
      let c' := fun j => if j =? k then nl else i_cands s j in
      mkI c' (if same then i_idx s else reg (ent k (hd_error nl)) (unreg (ent k (best (i_cands s) k)) (i_idx s)))
  end.

(* the event is possible: the same object can only be selected before and after if it is the same path *)
Definition iev_ok (s : istate) (e : iev) : Prop :=
  match e with IUpd k nl same => same = true -> hd_error nl = best (i_cands s) k end.

Definition iinit : istate := mkI (fun _ => []) (fun _ => []).

(* the index holds, per target, exactly the selected paths that carry it -- and each once *)
Definition IInv (s : istate) : Prop :=
  (forall t k r, In (k, r) (i_idx s t) <-> best (i_cands s) k = Some r /\ zmem t (vr_rts r) = true) /\
  (forall t, NoDup (i_idx s t)).

Lemma ident_refl p : ident_eqb p p = true.
Proof. unfold ident_eqb. now rewrite !Z.eqb_refl. Qed.

Lemma istep_inv s e : IInv s -> iev_ok s e -> IInv (istep s e).
Proof.
  intros (H & ND) Hok. destruct e as [k nl same]. cbn [istep iev_ok] in *. destruct same.
  - (* index untouched, selected path unchanged *)
    specialize (Hok eq_refl). split; [|exact ND]. intros t j r. cbn [i_idx i_cands]. rewrite H. unfold best.
    destruct (Z.eqb_spec j k) as [->|N]; [|reflexivity]. fold (best (i_cands s) k). rewrite <- Hok. reflexivity.
  - clear Hok. set (ob := best (i_cands s) k). set (nb := hd_error nl).
    assert (Hk : forall t r, In (k, r) (i_idx s t) <-> ob = Some r /\ zmem t (vr_rts r) = true) by (intros t r; apply H).
    (* after unregistering the old selected path: no entry of destination k, the others untouched *)
    assert (U : forall t j r, In (j, r) (unreg (ent k ob) (i_idx s) t) <-> j <> k /\ In (j, r) (i_idx s t)).
    { intros t j r. unfold unreg. destruct ob as [o|] eqn:Eo; cbn [ent option_map].
      - cbn [snd]. destruct (zmem t (vr_rts o)) eqn:Et.
        + rewrite filter_In. unfold ident_eqb. cbn [fst snd]. split.
          * intros (Hin & Hne). destruct (Z.eqb_spec j k) as [->|N]; [|split; [exact N|exact Hin]].
            apply Hk in Hin. destruct Hin as (E & _). injection E as ->. rewrite Z.eqb_refl in Hne. discriminate.
          * intros (N & Hin). split; [exact Hin|]. destruct (Z.eqb_spec j k); [contradiction|reflexivity].
        + split.
          * intros Hin. split; [|exact Hin]. intros ->. apply Hk in Hin. destruct Hin as (E & Hz). injection E as ->. congruence.
          * intros (_ & Hin). exact Hin.
      - split.
        + intros Hin. split; [|exact Hin]. intros ->. apply Hk in Hin. destruct Hin as (E & _). discriminate.
        + intros (_ & Hin). exact Hin. }
    assert (UND : forall t, NoDup (unreg (ent k ob) (i_idx s) t)).
    { intros t. unfold unreg. destruct (ent k ob) as [p|]; [|apply ND]. destruct (zmem t (vr_rts (snd p))); [apply NoDup_filter|]; apply ND. }
    split.
    + intros t j r. cbn [i_idx i_cands]. unfold best. unfold reg. destruct nb as [n|] eqn:En; cbn [ent option_map].
      * cbn [snd]. destruct (zmem t (vr_rts n)) eqn:Et.
        -- cbn [In]. rewrite filter_In, U. unfold ident_eqb. cbn [fst snd]. destruct (Z.eqb_spec j k) as [->|N].
           ++ fold nb. rewrite En. split.
              ** intros [E|((Nk & _) & _)]; [injection E as <-; split; [reflexivity|exact Et]|contradiction].
              ** intros (E & _). injection E as <-. left. reflexivity.
           ++ rewrite <- (H t j r). unfold best. split.
              ** intros [E|((_ & Hin) & _)]; [injection E as E1 _; congruence|exact Hin].
              ** intros Hin. right. split; [split; [exact N|exact Hin]|]. destruct (Z.eqb_spec j k); [contradiction|reflexivity].
        -- rewrite U. destruct (Z.eqb_spec j k) as [->|N].
           ++ fold nb. rewrite En. split; [intros (Nk & _); contradiction|]. intros (E & Hz). injection E as <-. congruence.
           ++ rewrite <- (H t j r). unfold best. split; [intros (_ & Hin); exact Hin|intros Hin; split; [exact N|exact Hin]].
      * rewrite U. destruct (Z.eqb_spec j k) as [->|N].
        -- fold nb. rewrite En. split; [intros (Nk & _); contradiction|intros (E & _); discriminate].
        -- rewrite <- (H t j r). unfold best. split; [intros (_ & Hin); exact Hin|intros Hin; split; [exact N|exact Hin]].
    + intros t. cbn [i_idx]. unfold reg. destruct (ent k nb) as [p|] eqn:Ep; [|apply UND].
      destruct (zmem t (vr_rts (snd p))); [|apply UND]. constructor.
      * rewrite filter_In. intros (_ & Hne). rewrite ident_refl in Hne. discriminate.
      * apply NoDup_filter. apply UND.
Qed.

Fixpoint irun (s : istate) (h : list iev) : istate := match h with [] => s | e :: r => irun (istep s e) r end.
Fixpoint ih_ok (s : istate) (h : list iev) : Prop := match h with [] => True | e :: r => iev_ok s e /\ ih_ok (istep s e) r end.

Theorem index_exact h : ih_ok iinit h -> IInv (irun iinit h).
Proof.
  assert (G : forall s, IInv s -> ih_ok s h -> IInv (irun s h)).
  { induction h as [|e r IH]; intros s Hs Hh; [exact Hs|]. destruct Hh as (He & Hr). cbn [irun]. apply IH; [now apply istep_inv|exact Hr]. }
  apply G. split; [|intros t; constructor]. intros t k r. cbn. split; [intros []|intros (E & _); discriminate].
Qed.

(* GetPathsByRT: what processRTCMembership starts from when a membership for target t arrives or goes *)
Definition paths_by_rt (s : istate) (t : Z) : list entry := i_idx s t.

(* ... is exactly "the selected routes carrying the target", which is what Vrf.Model's MAdd / MDel steps range over *)
Corollary paths_by_rt_are_the_selected_routes_carrying h t k r asn :
  ih_ok iinit h ->
  (In (k, r) (paths_by_rt (irun iinit h) t) <-> best (i_cands (irun iinit h)) k = Some r /\ carries (asn, Some t) r = true).
Proof. intros Hh. destruct (index_exact h Hh) as (H & _). apply H. Qed.

(* an update that only unregisters the withdrawn path (the selected one) and registers nothing loses the new selected
   path: the statement fails for that variant of updateVPNIdx *)
Definition istep_withdraw_only (s : istate) (k : Z) (nl : list vroute) : istate :=
  mkI (fun j => if j =? k then nl else i_cands s j) (unreg (ent k (best (i_cands s) k)) (i_idx s)).
Example withdraw_only_variant_refuted :
  let a := mkVR 1 1 100 1 [7] in let d := mkVR 1 1 100 4 [7] in
  let s1 := irun iinit [IUpd 5 [a] false; IUpd 5 [a; d] true] in
  IInv s1 /\ ~ IInv (istep_withdraw_only s1 5 [d]).
Proof.
  cbv zeta. split.
  - apply index_exact. cbn. split; [discriminate|]. split; [intros _; reflexivity|exact I].
  - intros (H & _). specialize (H 7 5 (mkVR 1 1 100 4 [7])). destruct H as (_ & H).
    assert (X : In (5, mkVR 1 1 100 4 [7]) (i_idx (istep_withdraw_only (irun iinit [IUpd 5 [mkVR 1 1 100 1 [7]] false; IUpd 5 [mkVR 1 1 100 1 [7]; mkVR 1 1 100 4 [7]] true]) 5 [mkVR 1 1 100 4 [7]]) 7)) by (apply H; split; reflexivity).
    vm_compute in X. exact X.
Qed.
