(* C18 -- executable model of the API <-> native converters of pkg/apiutil for the attribute universe of Wire.Model
   (MarshalPathAttributes / UnmarshalAttribute: ORIGIN, AS_PATH, NEXT_HOP, MED, LOCAL_PREF, ATOMIC_AGGREGATE, AGGREGATOR
   (4-octet), COMMUNITIES, ORIGINATOR_ID, CLUSTER_LIST, unknown attributes) and of the policy-statement converters
   (toStatementApi in internal/pkg/table and pkg/server, newStatementFromApiStruct + Statement.ToConfig) for the
   conditions and actions of Policy.Interp plus the origin and route-type conditions.
   The API carries addresses as text: netip.Addr.String / netip.ParseAddr for IPv4 are modelled over character codes.
   Definitions only. *)
From Coq Require Import List ZArith Bool.
From Verif Require Import Common.Bytes Common.Regex Common.Decimal Wire.Model.
Import ListNotations.
Open Scope Z_scope.

(* ---- IPv4 address text *)
Definition show_ip4 (o : list Z) : list Z :=
  match o with
  | [a; b; c; d] => render a ++ 46 :: render b ++ 46 :: render c ++ 46 :: render d
  | _ => []
  end.

Fixpoint split_dot (s cur : list Z) : list (list Z) :=
  match s with
  | [] => [rev cur]
  | c :: r => if c =? 46 then rev cur :: split_dot r [] else split_dot r (c :: cur)
  end.

(* one field: decimal digits, no leading zero unless the field is "0", at most 255 *)
Definition field (s : list Z) : option Z :=
  match s with
  | 48 :: _ :: _ => None
  | _ => parse_uint s 8
  end.

Definition parse_ip4 (s : list Z) : option (list Z) :=
  match split_dot s [] with
  | [a; b; c; d] =>
      match field a, field b, field c, field d with
      | Some w, Some x, Some y, Some z => Some [w; x; y; z]
      | _, _, _, _ => None
      end
  | _ => None
  end.

(* ---- attributes in API form *)
Inductive aattr :=
| POrigin (v : Z)
| PAsPath (segs : list (Z * list Z))
| PNextHop (s : list Z)
| PMed (v : Z) | PLocalPref (v : Z) | PAtomic
| PAggregator (asn : Z) (s : list Z)
| PCommunities (l : list Z)
| POriginator (s : list Z)
| PClusterList (l : list (list Z))
| PUnknown (flags typ : Z) (body : list Z).

(* NewPathAttributeUnknown: the constructor sets the extended-length flag itself when the value needs it *)
Definition uflags (f : Z) (b : list Z) : Z := if 255 <? blen b then Z.lor f 16 else f.
Definition mk_unknown (f t : Z) (b : list Z) : attr := AUnknown (uflags f b) t b.

Definition to_api (a : attr) : aattr :=
  match a with
  | AOrigin v => POrigin v
  | AAsPath s => PAsPath s
  | ANextHop x => PNextHop (show_ip4 x)
  | AMed v => PMed v
  | ALocalPref v => PLocalPref v
  | AAtomic => PAtomic
  | AAggregator asn x => PAggregator asn (show_ip4 x)
  | ACommunities l => PCommunities l
  | AOriginator x => POriginator (show_ip4 x)
  | AClusterList l => PClusterList (map show_ip4 l)
  | AUnknown f t b => PUnknown f t b
  end.

Fixpoint parse_all (l : list (list Z)) : option (list (list Z)) :=
  match l with
  | [] => Some []
  | s :: r => match parse_ip4 s, parse_all r with Some o, Some t => Some (o :: t) | _, _ => None end
  end.

(* UnmarshalAttribute: the origin and the segment types are cut to one octet (uint8 conversions), addresses are parsed *)
Definition of_api (p : aattr) : option attr :=
  match p with
  | POrigin v => Some (AOrigin (v mod 256))
  | PAsPath s => Some (AAsPath (map (fun tm => (fst tm mod 256, snd tm)) s))
  | PNextHop s => option_map ANextHop (parse_ip4 s)
  | PMed v => Some (AMed v)
  | PLocalPref v => Some (ALocalPref v)
  | PAtomic => Some AAtomic
  | PAggregator asn s => option_map (AAggregator asn) (parse_ip4 s)
  | PCommunities l => Some (ACommunities l)
  | POriginator s => option_map AOriginator (parse_ip4 s)
  | PClusterList l => option_map AClusterList (parse_all l)
  | PUnknown f t b => Some (mk_unknown f t b)
  end.

Definition octets4 (o : list Z) : Prop := length o = 4%nat /\ Forall (fun x => 0 <= x < 256) o.
Definition wf_api_attr (a : attr) : Prop :=
  match a with
  | AOrigin v => 0 <= v < 256
  | AAsPath s => Forall (fun tm => 0 <= fst tm < 256) s
  | ANextHop x | AOriginator x | AAggregator _ x => octets4 x
  | AClusterList l => Forall octets4 l
  | AUnknown f _ b => uflags f b = f          (* as built by the constructor *)
  | _ => True
  end.

(* ---- policy statements: configuration form (oc.Statement, the fields of interest) and API form (api.Statement) *)
Record cstmt := mkCS {
  cs_prefix : option (list Z * bool);          (* set name, invert *)
  cs_neighbor : option (list Z * bool);
  cs_aslen : option (Z * Z);                   (* operator 0 eq / 1 ge / 2 le, value *)
  cs_commcount : option (Z * Z);
  cs_origin : option Z;                        (* 0 igp / 1 egp / 2 incomplete *)
  cs_rtype : option Z;                         (* 0 internal / 1 external / 2 local *)
  cs_comm : option (list Z * Z);               (* set name, 0 any / 1 all / 2 invert *)
  cs_route : option bool;                      (* accept? *)
  cs_med : option (Z * Z);                     (* 0 replace / 1 add / 2 subtract, magnitude *)
  cs_lp : option Z;                            (* set-local-pref, 0 = not configured *)
  cs_prepend : option (option Z * Z);          (* AS (None = last-as), repeat *)
  cs_community : option (Z * list (list Z))    (* 0 add / 1 remove / 2 replace, communities as text *)
}.

Record astmt := mkAS {
  as_prefix : option (Z * list Z);             (* MatchSet type 1 any / 2 all / 3 invert, name *)
  as_neighbor : option (Z * list Z);
  as_aslen : option (Z * Z);                   (* Comparison 1 eq / 2 ge / 3 le, length *)
  as_commcount : option (Z * Z);
  as_origin : Z;                               (* OriginType: 0 unspecified, 1 igp, 2 egp, 3 incomplete *)
  as_rtype : Z;                                (* 0 unspecified, 1 internal, 2 external, 3 local *)
  as_comm : option (Z * list Z);
  as_route : Z;                                (* RouteAction 0 unspecified / 1 accept / 2 reject *)
  as_med : option (Z * Z);                     (* type 1 mod / 2 replace, signed value *)
  as_lp : option Z;
  as_prepend : option (Z * Z * bool);          (* asn, repeat, use-left-most *)
  as_community : option (Z * list (list Z))    (* type 1 add / 2 remove / 3 replace *)
}.

Definition stmt_to_api (c : cstmt) : astmt :=
  mkAS (option_map (fun p : list Z * bool => (if snd p then 3 else 1, fst p)) (cs_prefix c))
       (option_map (fun p : list Z * bool => (if snd p then 3 else 1, fst p)) (cs_neighbor c))
       (option_map (fun p : Z * Z => (fst p + 1, snd p)) (cs_aslen c))
       (option_map (fun p : Z * Z => (fst p + 1, snd p)) (cs_commcount c))
       (match cs_origin c with Some o => o + 1 | None => 0 end)
       (match cs_rtype c with Some t => t + 1 | None => 0 end)
       (option_map (fun p : list Z * Z => (snd p + 1, fst p)) (cs_comm c))
       (match cs_route c with Some true => 1 | Some false => 2 | None => 0 end)
       (option_map (fun p : Z * Z => if fst p =? 0 then (2, snd p) else if fst p =? 1 then (1, snd p) else (1, - snd p)) (cs_med c))
       (match cs_lp c with Some 0 => None | o => o end)
       (option_map (fun p : option Z * Z => match fst p with Some a => (a, snd p, false) | None => (0, snd p, true) end) (cs_prepend c))
       (option_map (fun p : Z * list (list Z) => (fst p + 1, snd p)) (cs_community c)).

Definition stmt_of_api (a : astmt) : cstmt :=
  mkCS (option_map (fun p : Z * list Z => (snd p, fst p =? 3)) (as_prefix a))
       (option_map (fun p : Z * list Z => (snd p, fst p =? 3)) (as_neighbor a))
       (option_map (fun p : Z * Z => (fst p - 1, snd p)) (as_aslen a))
       (option_map (fun p : Z * Z => (fst p - 1, snd p)) (as_commcount a))
       (if as_origin a =? 0 then None else Some (as_origin a - 1))
       (if as_rtype a =? 0 then None else Some (as_rtype a - 1))
       (option_map (fun p : Z * list Z => (snd p, fst p - 1)) (as_comm a))
       (if as_route a =? 1 then Some true else if as_route a =? 2 then Some false else None)
       (option_map (fun p : Z * Z => if fst p =? 2 then (0, snd p) else if 0 <=? snd p then (1, snd p) else (2, - snd p)) (as_med a))
       (as_lp a)
       (option_map (fun p : Z * Z * bool => match p with (a, n, lm) => (if lm then None else Some a, n) end) (as_prepend a))
       (option_map (fun p : Z * list (list Z) => (fst p - 1, snd p)) (as_community a)).

(* the statements the configuration layer accepts: operators and enumerations in range; a MED modification written
   with "-" has a positive magnitude ("-0" and "+0" are the same modification); set-local-pref 0 means "absent" *)
Definition wf_cstmt (c : cstmt) : Prop :=
  (forall p, cs_aslen c = Some p -> 0 <= fst p <= 2) /\
  (forall p, cs_commcount c = Some p -> 0 <= fst p <= 2) /\
  (forall o, cs_origin c = Some o -> 0 <= o <= 2) /\
  (forall t, cs_rtype c = Some t -> 0 <= t <= 2) /\
  (forall p, cs_comm c = Some p -> 0 <= snd p <= 2) /\
  (forall p, cs_med c = Some p -> 0 <= snd p /\ (fst p = 0 \/ fst p = 1 \/ (fst p = 2 /\ 0 < snd p))) /\
  cs_lp c <> Some 0 /\
  (forall p, cs_community c = Some p -> 0 <= fst p <= 2).
