(* C18 -- proofs about Conv.Model: address text, attribute and policy-statement round trips. *)
From Coq Require Import List ZArith Bool Lia.
From Verif Require Import Common.Bytes Common.Regex Common.Decimal Wire.Model Conv.Model.
Import ListNotations.
Open Scope Z_scope.

(* ---- decimal text never starts with 0 unless it is "0", and contains no dot *)
Lemma digits_head f : forall n, 1 <= n < 10 ^ Z.of_nat (S f) -> exists d r, digits (S f) n = d :: r /\ d <> 48.
Proof.
  induction f as [|f IH]; intros n Hn.
  - change (10 ^ Z.of_nat 1) with 10 in Hn. rewrite digits_S.
    assert (E : n <? 10 = true) by (apply Z.ltb_lt; lia). rewrite E. exists (48 + n), []. split; [reflexivity|lia].
  - rewrite (digits_S (S f)). destruct (n <? 10) eqn:E.
    + apply Z.ltb_lt in E. exists (48 + n), []. split; [reflexivity|lia].
    + apply Z.ltb_ge in E.
      assert (Hq : 1 <= n / 10 < 10 ^ Z.of_nat (S f)).
      { split; [apply Z.div_le_lower_bound; lia|]. apply Z.div_lt_upper_bound; [lia|].
        replace (10 * 10 ^ Z.of_nat (S f)) with (10 ^ Z.of_nat (S (S f))); [lia|].
        rewrite (Nat2Z.inj_succ (S f)), Z.pow_succ_r by lia. reflexivity. }
      destruct (IH _ Hq) as (d & r & Ed & Nd). rewrite Ed. exists d, (r ++ [48 + n mod 10]). split; [reflexivity|exact Nd].
Qed.

Lemma field_render n : 0 <= n < 256 -> field (render n) = Some n.
Proof.
  intros H. assert (H32 : 0 <= n < 2 ^ 32) by (change (2 ^ 32) with 4294967296; lia).
  pose proof (parse_uint_render n 8 H32 ltac:(change (2 ^ 8) with 256; lia)) as P.
  destruct (Z.eq_dec n 0) as [->|N]; [reflexivity|].
  assert (Hd : exists d r, render n = d :: r /\ d <> 48).
  { apply (digits_head 10). change (10 ^ Z.of_nat 11) with 100000000000. lia. }
  destruct Hd as (d & r & E & Nd). unfold field. rewrite E in *.
  destruct (Z.eq_dec d 48); [contradiction|].
  destruct d as [|p|p]; try exact P. do 6 (destruct p as [p|p|]; try exact P). contradiction.
Qed.

Lemma digit_not_dot c : is_digit c = true -> c =? 46 = false.
Proof. unfold is_digit. intros H. apply andb_true_iff in H. destruct H as [H _]. apply Z.leb_le in H. apply Z.eqb_neq. lia. Qed.

Lemma split_digits l : forall cur rest, all_digits l = true ->
  split_dot (l ++ 46 :: rest) cur = (rev cur ++ l) :: split_dot rest [].
Proof.
  induction l as [|c l IH]; intros cur rest H; cbn [app split_dot].
  - rewrite Z.eqb_refl. now rewrite app_nil_r.
  - unfold all_digits in H. cbn [forallb] in H. apply andb_true_iff in H. destruct H as [Hc Hl].
    rewrite (digit_not_dot c Hc). rewrite (IH (c :: cur) rest Hl). cbn [rev]. now rewrite <- app_assoc.
Qed.
Lemma split_digits_end l : forall cur, all_digits l = true -> split_dot l cur = [rev cur ++ l].
Proof.
  induction l as [|c l IH]; intros cur H; cbn [split_dot].
  - now rewrite app_nil_r.
  - unfold all_digits in H. cbn [forallb] in H. apply andb_true_iff in H. destruct H as [Hc Hl].
    rewrite (digit_not_dot c Hc). rewrite (IH (c :: cur) Hl). cbn [rev]. now rewrite <- app_assoc.
Qed.

Lemma render_digits n : 0 <= n < 256 -> all_digits (render n) = true.
Proof. intros H. apply render_spec. change (2 ^ 32) with 4294967296. lia. Qed.

(* netip.ParseAddr (netip.Addr.String ()) for IPv4 *)
Theorem ip4_text_roundtrip o : octets4 o -> parse_ip4 (show_ip4 o) = Some o.
Proof.
  intros [Hl Hf]. destruct o as [|a [|b [|c [|d [|e r]]]]]; try discriminate.
  inversion Hf as [|? ? Ha Hf1]; subst. inversion Hf1 as [|? ? Hb Hf2]; subst.
  inversion Hf2 as [|? ? Hc Hf3]; subst. inversion Hf3 as [|? ? Hd _]; subst.
  unfold parse_ip4, show_ip4.
  rewrite (split_digits (render a) [] _ (render_digits a Ha)). cbn [rev app].
  rewrite (split_digits (render b) [] _ (render_digits b Hb)). cbn [rev app].
  rewrite (split_digits (render c) [] _ (render_digits c Hc)). cbn [rev app].
  rewrite (split_digits_end (render d) [] (render_digits d Hd)). cbn [rev app].
  now rewrite (field_render a Ha), (field_render b Hb), (field_render c Hc), (field_render d Hd).
Qed.

Lemma parse_all_show l : Forall octets4 l -> parse_all (map show_ip4 l) = Some l.
Proof.
  induction l as [|o l IH]; intros H; cbn [map parse_all]; [reflexivity|].
  inversion H as [|? ? Ho Hl]; subst. now rewrite (ip4_text_roundtrip o Ho), (IH Hl).
Qed.

(* ---- attributes: native -> API -> native is the identity *)
Theorem attr_api_roundtrip a : wf_api_attr a -> of_api (to_api a) = Some a.
Proof.
  destruct a as [v|s|x|v|v| |asn x|l|x|l|f t b]; cbn [wf_api_attr to_api of_api]; intros H; try reflexivity.
  - f_equal. f_equal. apply Z.mod_small. exact H.
  - f_equal. f_equal. induction s as [|[t m] s IH]; [reflexivity|]. inversion H as [|? ? Ht Hs]; subst. cbn [map fst snd].
    rewrite (Z.mod_small t 256 Ht). now rewrite (IH Hs).
  - now rewrite (ip4_text_roundtrip x H).
  - now rewrite (ip4_text_roundtrip x H).
  - now rewrite (ip4_text_roundtrip x H).
  - now rewrite (parse_all_show l H).
  - unfold mk_unknown. now rewrite H.
Qed.

Lemma mk_unknown_wf f t b : 0 <= f -> wf_api_attr (mk_unknown f t b).
Proof.
  intros Hf. unfold mk_unknown, wf_api_attr, uflags. destruct (255 <? blen b); [|reflexivity].
  rewrite <- Z.lor_assoc. reflexivity.
Qed.

(* ... and therefore the same octets on the wire *)
Corollary attr_api_same_bytes a b : wf_api_attr a -> of_api (to_api a) = Some b -> enc_attr b = enc_attr a.
Proof. intros H E. rewrite (attr_api_roundtrip a H) in E. now injection E as <-. Qed.

(* API -> native -> API is the identity on every API value that was produced from a native one *)
Corollary api_attr_roundtrip p a a0 : wf_api_attr a0 -> p = to_api a0 -> of_api p = Some a -> to_api a = p.
Proof. intros H -> E. rewrite (attr_api_roundtrip a0 H) in E. now injection E as <-. Qed.

(* ---- policy statements: configuration -> API -> configuration is the identity *)
Theorem stmt_api_roundtrip c : wf_cstmt c -> stmt_of_api (stmt_to_api c) = c.
Proof.
  destruct c as [pf nb al cc og rt cm ro md lp pp cy].
  intros (Hal & Hcc & Hog & Hrt & Hcm & Hmd & Hlp & Hcy). cbn in *.
  unfold stmt_of_api, stmt_to_api. cbn. f_equal.
  - destruct pf as [[n [|]]|]; reflexivity.
  - destruct nb as [[n [|]]|]; reflexivity.
  - destruct al as [[o v]|]; [|reflexivity]. cbn. do 2 f_equal. lia.
  - destruct cc as [[o v]|]; [|reflexivity]. cbn. do 2 f_equal. lia.
  - destruct og as [o|]; [|reflexivity]. specialize (Hog o eq_refl). destruct (Z.eqb_spec (o + 1) 0); [lia|]. f_equal. lia.
  - destruct rt as [t|]; [|reflexivity]. specialize (Hrt t eq_refl). destruct (Z.eqb_spec (t + 1) 0); [lia|]. f_equal. lia.
  - destruct cm as [[n o]|]; [|reflexivity]. cbn. do 2 f_equal. lia.
  - destruct ro as [[|]|]; reflexivity.
  - destruct md as [[k v]|]; [|reflexivity]. destruct (Hmd (k, v) eq_refl) as [Hv Hk]. cbn in *.
    destruct Hk as [->|[->|[-> Hp]]]; cbn.
    + reflexivity.
    + destruct (Z.leb_spec 0 v); [reflexivity|lia].
    + destruct (Z.leb_spec 0 (- v)); [lia|]. do 2 f_equal. lia.
  - destruct lp as [[|p|p]|]; try reflexivity. contradiction.
  - destruct pp as [[[a|] n]|]; reflexivity.
  - destruct cy as [[o l]|]; [|reflexivity]. cbn. do 2 f_equal. lia.
Qed.
