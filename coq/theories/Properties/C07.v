(* C07 -- Peering sessions follow the RFC 4271 state machine, timers included.
   Statements only. Model: Session.Fsm (passive side, whole seconds of virtual time).  The theorems hold for EVERY
   configuration (hold time, keepalive interval, idle-hold-after-reset, prefix limit) and EVERY state or history. *)
From Coq Require Import List ZArith Bool Lia.
From Verif Require Import Session.Fsm Session.FsmProofs.
Import ListNotations.
Open Scope Z_scope.

(* a session only moves Idle -> Active -> OpenSent -> OpenConfirm -> Established or back to Idle: every step of the
   model is one such transition (or none), possibly followed at once by Idle -> Active when the idle hold time is 0 *)
Theorem C07_transitions : forall k s e,
  exists m, allowed (s_st s) m /\ (s_st (step k s e) = m \/ (m = Idle /\ s_st (step k s e) = Active)).
Proof. exact step_allowed. Qed.
Print Assumptions C07_transitions.

(* Established only after a valid OPEN and then a KEEPALIVE on the live connection, after any history *)
Theorem C07_established_needs_handshake : forall k h,
  s_st (run k h) = Established -> s_open_ok (run k h) = true /\ s_ka_ok (run k h) = true.
Proof. exact established_needs_handshake. Qed.
Print Assumptions C07_established_needs_handshake.

Theorem C07_open_flag_origin : forall k s e,
  s_open_ok (step k s e) = true ->
  s_open_ok s = true \/ (exists h, e = RxOpen None h /\ s_st s = OpenSent).
Proof. exact open_flag_origin. Qed.
Print Assumptions C07_open_flag_origin.

(* routing messages received in any other state never reach a RIB *)
Theorem C07_rib_only_when_established : forall k s e,
  s_rib (step k s e) <> s_rib s ->
  s_st s = Established /\ (e = RxRefresh \/ exists b, e = RxUpd b).
Proof. exact rib_only_when_established. Qed.
Print Assumptions C07_rib_only_when_established.

(* every error event yields the NOTIFICATION (or none) of the RFC table, then close, then Idle *)
Theorem C07_reaction_table : forall k s e r,
  rfc_reaction (s_st s) e = Some r ->
  (s_st (step k s e) = Idle \/ s_st (step k s e) = Active) /\
  wrote s (step k s e) (match r with Some (c, sc) => [ONotif c sc; OClose] | None => [OClose] end).
Proof. exact reaction_table. Qed.
Print Assumptions C07_reaction_table.

(* the hold timer (OpenSent, OpenConfirm, Established) expires at the instant it prescribes and not before *)
Theorem C07_hold_timer_exact : forall k (n : nat) s,
  live s -> s_hold_t s = Some (Z.of_nat (S n)) ->
  (forall m, (m <= n)%nat -> s_st (ticks k m s) = s_st s /\ notifs (ticks k m s) = notifs s) /\
  (s_st (ticks k (S n) s) = Idle \/ s_st (ticks k (S n) s) = Active) /\
  notifs (ticks k (S n) s) = (s_now s + Z.of_nat (S n), ONotif 4 0) :: notifs s.
Proof. exact hold_timer_exact. Qed.
Print Assumptions C07_hold_timer_exact.

Theorem C07_hold_zero_never_expires : forall k s,
  live s -> s_hold_t s = None ->
  s_st (step k s Tick) = s_st s /\ s_hold_t (step k s Tick) = None /\ notifs (step k s Tick) = notifs s.
Proof. exact no_hold_timer_no_expiry. Qed.
Print Assumptions C07_hold_zero_never_expires.

(* which value each state's hold timer starts from: 240 s in OpenSent, the negotiated minimum afterwards, restarted
   by every KEEPALIVE in Established *)
Theorem C07_timers_armed : forall k s,
  (s_st s = Active -> s_hold_t (step k s Conn) = Some holdtime_opensent) /\
  (s_st s = OpenSent -> forall h, s_hold_t (step k s (RxOpen None h)) = timer_of (Z.min (k_hold k) h) /\
                                  s_neg_hold (step k s (RxOpen None h)) = Z.min (k_hold k) h) /\
  (s_st s = OpenConfirm -> s_hold_t (step k s RxKa) = timer_of (s_neg_hold s)) /\
  (s_st s = Established -> s_hold_t (step k s RxKa) = timer_of (s_neg_hold s)).
Proof. exact timers_armed. Qed.
Print Assumptions C07_timers_armed.

(* non-vacuity: a history that reaches Established, lets the hold timer (9 s) expire, and re-establishes *)
Definition ex_k := mkCfg 9 3 30 0.
Definition ex_h := [Conn; RxOpen None 30; RxKa; Tick; Tick; Tick; RxKa; Tick; Tick; Tick; Tick; Tick; Tick; Tick; Tick; Tick;
                    Tick; Tick; Tick; Tick; Tick; Conn; RxOpen None 9; RxKa].
Example C07_nonvacuous :
  s_st (run ex_k ex_h) = Established /\
  notifs (run ex_k ex_h) = [(12, ONotif 4 0)] /\
  s_st (run ex_k [Conn; RxOpen None 30; RxKa]) = Established /\ s_hold_t (run ex_k [Conn; RxOpen None 30; RxKa]) = Some 9.
Proof. vm_compute. auto. Qed.

(* ---- connection collision: which connection survives (model: Session.Negotiate.dominant = fsm.isDominant) *)
From Verif Require Session.Negotiate.
(* of two speakers that see each other's OPEN, exactly one finds itself dominant, unless identifier AND AS coincide (then
   neither does); the decision is by the identifier as an unsigned number, the AS only breaks ties *)
Theorem C07_collision_one_winner : forall (a b : Session.Negotiate.lconf) (oa ob : Session.Negotiate.open),
  Session.Negotiate.o_id oa = Session.Negotiate.l_id a -> Session.Negotiate.remote_as oa = Session.Negotiate.l_as a ->
  Session.Negotiate.o_id ob = Session.Negotiate.l_id b -> Session.Negotiate.remote_as ob = Session.Negotiate.l_as b ->
  (Session.Negotiate.l_id a <> Session.Negotiate.l_id b \/ Session.Negotiate.l_as a <> Session.Negotiate.l_as b) ->
  Session.Negotiate.dominant a ob = negb (Session.Negotiate.dominant b oa).
Proof.
  intros a b oa ob Ha1 Ha2 Hb1 Hb2 Hne. unfold Session.Negotiate.dominant. rewrite Ha1, Ha2, Hb1, Hb2.
  destruct (Z.ltb_spec (Session.Negotiate.l_id b) (Session.Negotiate.l_id a)); destruct (Z.ltb_spec (Session.Negotiate.l_id a) (Session.Negotiate.l_id b));
    destruct (Z.eqb_spec (Session.Negotiate.l_id a) (Session.Negotiate.l_id b)); destruct (Z.eqb_spec (Session.Negotiate.l_id b) (Session.Negotiate.l_id a));
    destruct (Z.ltb_spec (Session.Negotiate.l_as b) (Session.Negotiate.l_as a)); destruct (Z.ltb_spec (Session.Negotiate.l_as a) (Session.Negotiate.l_as b));
    cbn; try reflexivity; try lia.
Qed.
Print Assumptions C07_collision_one_winner.
Theorem C07_collision_higher_identifier_wins : forall (l : Session.Negotiate.lconf) (o : Session.Negotiate.open),
  Session.Negotiate.o_id o < Session.Negotiate.l_id l -> Session.Negotiate.dominant l o = true.
Proof. intros l o H. unfold Session.Negotiate.dominant. destruct (Z.ltb_spec (Session.Negotiate.o_id o) (Session.Negotiate.l_id l)); [reflexivity|lia]. Qed.
Print Assumptions C07_collision_higher_identifier_wins.
