(* C20 -- No data race, deadlock or goroutine leak in any interleaving; clean shutdown.
   Statements only, and only for ONE mechanism of the property: the shutdown of the unbounded queues (a peer's outgoing
   queue, a watcher's queue) -- cleanInfiniteChannel against the queue's pump goroutine, under every interleaving of
   the two.  The cleaner's program [clean_program] is regenerated from pkg/server/util.go on every run.  Data races,
   deadlocks between the server's locks and the other goroutines of a peer are NOT covered by theorems: checks/c20.py
   searches for them (race detector, deadlock detection of the synctest bubble, goroutine accounting). *)
From Coq Require Import List ZArith Bool.
From Verif Require Import Shutdown.Queue Generated.C20Clean.
Import ListNotations.

(* for every queue content and every schedule: whenever the system comes to rest the cleaner has returned and the
   pump goroutine has exited (no goroutine is left behind, the caller is not stuck) *)
Theorem C20_queue_shutdown_no_leak : no_leak clean_program.
Proof. exact good_no_leak. Qed.
Print Assumptions C20_queue_shutdown_no_leak.

(* and it does come to rest: every step that changes the state lowers a measure bounded by the queue length *)
Theorem C20_queue_shutdown_terminates : forall sched items c,
  let st := run sched (start clean_program items) in
  sys_step st c <> st -> (measure (sys_step st c) < measure st)%nat.
Proof.
  intros sched items c st. apply good_step_decreases.
  - apply inv_run. left. repeat split; reflexivity.
  - apply offok_run. intros H. discriminate.
Qed.
Print Assumptions C20_queue_shutdown_terminates.

(* the form the cleaner had before the repair is refuted: it leaks the pump goroutine under the schedule
   "cleaner, cleaner, pump" with one queued item *)
Theorem C20_drain_until_empty_leaks : ~ no_leak [OClose; ODrainUntilEmpty].
Proof. exact drain_until_empty_leaks. Qed.
Print Assumptions C20_drain_until_empty_leaks.

Example C20_nonvacuous :
  run [false; true; false; true; false; true; false; false] (start clean_program [7; 8]%Z) = ([], mkQ [] true false true) /\
  quiescent ([], mkQ [] true false true) /\
  run [true; false; false; true; false; true; false] (start clean_program [7]%Z) = ([], mkQ [] true false true).
Proof. vm_compute. repeat split; reflexivity. Qed.
