(* C20 -- No data race, deadlock or goroutine leak in any interleaving; clean shutdown.
   Statements only, and only for ONE mechanism of the property: the shutdown of the unbounded queues (a peer's outgoing
   queue, a watcher's queue) -- cleanInfiniteChannel against the queue's pump goroutine, under every interleaving of
   the two.  The cleaner's program [clean_program] is regenerated from pkg/server/util.go on every run.  Data races,
   deadlocks between the server's locks and the other goroutines of a peer are NOT covered by theorems: checks/c20.py
   searches for them (race detector, deadlock detection of the synctest bubble, goroutine accounting). *)
From Coq Require Import List ZArith Bool String.
From Verif Require Import Shutdown.Queue Generated.C20Clean Shutdown.LockOrder Generated.C20Locks.
Import ListNotations.

(* for every queue content and every schedule: whenever the system comes to rest the cleaner has returned and the
   pump goroutine has exited (no goroutine is left behind, the caller is not stuck) *)
Theorem C20_queue_shutdown_no_leak : no_leak clean_program.
Proof. exact good_no_leak. Qed.
Print Assumptions C20_queue_shutdown_no_leak.

(* and it does come to rest: every step that changes the state lowers a measure bounded by the queue length *)
Theorem C20_queue_shutdown_terminates : forall sched items c,
  let st := run sched (start clean_program items) in
  sys_step st c <> st -> (measure (sys_step st c) < measure st)%nat.
Proof.
  intros sched items c st. apply good_step_decreases.
  - apply inv_run. left. repeat split; reflexivity.
  - apply offok_run. intros H. discriminate.
Qed.
Print Assumptions C20_queue_shutdown_terminates.

(* the form the cleaner had before the repair is refuted: it leaks the pump goroutine under the schedule
   "cleaner, cleaner, pump" with one queued item *)
Theorem C20_drain_until_empty_leaks : ~ no_leak [OClose; ODrainUntilEmpty].
Proof. exact drain_until_empty_leaks. Qed.
Print Assumptions C20_drain_until_empty_leaks.


(* ---- second mechanism: lock ordering.  [lock_fns] is regenerated from pkg/server and internal/pkg/table on every run:
   per function, the acquisitions and releases in source order, with the sequences of callees that can be named
   without type information (functions of the package, methods on the receiver itself) placed at their call sites.
   Every sequence respects the rank table of Shutdown.LockOrder (each class known, ranks strictly rising while locks
   are held -- in particular no lock is taken twice --, everything released at the end) ... *)
Theorem C20_lock_order_respected : first_bad lock_fns = None.
Proof. vm_compute. reflexivity. Qed.
Print Assumptions C20_lock_order_respected.

(* ... and therefore any number of goroutines, each running one of these sequences, under any interleaving, never reach
   a state in which somebody is unfinished and nobody can move (locks taken as exclusive) *)
Theorem C20_no_lock_order_deadlock : forall progs sched,
  Forall (fun p => exists f, In f lock_fns /\ to_ops (snd f) = Some p) progs ->
  let ts := lrun sched (map (fun p => (p, [])) progs) in
  existsb (fun t => negb (finished t)) ts = true -> existsb (enabled ts) ts = true.
Proof. intros progs sched. exact (listed_functions_never_deadlock lock_fns progs sched C20_lock_order_respected). Qed.
Print Assumptions C20_no_lock_order_deadlock.

Open Scope string_scope.
Example C20_lock_order_nonvacuous :
  (* taking the table manager's lock twice (what TableManager.Update did through handleMacMobility) is refused *)
  fn_ok ("x", [SAcq "TableManager.mu"; SAcq "TableManager.mu"; SRel "TableManager.mu"; SRel "TableManager.mu"]) = false /\
  fn_ok ("y", [SAcq "fsm.lock"; SAcq "shared.mu"; SRel "shared.mu"; SRel "fsm.lock"]) = false /\
  fn_ok ("z", [SAcq "shared.mu"; SAcq "bucket"; SAcq "fsm.lock"; SRel "fsm.lock"; SRel "bucket"; SRel "shared.mu"]) = true /\
  (10 <= List.length lock_fns)%nat.
Proof. vm_compute. repeat split; try reflexivity. repeat constructor. Qed.

Example C20_nonvacuous :
  run [false; true; false; true; false; true; false; false] (start clean_program [7; 8]%Z) = ([], mkQ [] true false true) /\
  quiescent ([], mkQ [] true false true) /\
  run [true; false; false; true; false; true; false] (start clean_program [7]%Z) = ([], mkQ [] true false true).
Proof. vm_compute. repeat split; reflexivity. Qed.
