(* C14 -- The 2-octet/4-octet AS transition (RFC 6793) loses nothing.
   Statements only; every proof is `exact <lemma>` from Codec.As4Proofs.
   The model (Codec.As4Model) mirrors internal/pkg/table/message.go after the
   "fix: AS4_PATH reconstruction ..." commit and is tied to it by the C14 correspondence check. *)
From Coq Require Import List ZArith Bool.
From Verif Require Import Common.Res Codec.As4Model Codec.As4Proofs.
Import ListNotations.
Open Scope Z_scope.

(* The form sent to a 2-octet peer is well-formed: AS_PATH is wire-valid with 2-octet members,
   AS4_PATH (present iff some member needs it) is wire-valid, carries no confederation segment and is
   exactly the non-confederation part of the path. *)
Theorem C14_down_wellformed : forall p, valid4 p = true ->
  valid2 (fst (down p)) = true /\
  match snd (down p) with
  | Some l => valid4 l = true /\ no_confed l = true /\ l = filter (fun s => negb (is_confed (fst s))) p
  | None => forall s, In s p -> existsb is4 (snd s) = false
  end.
Proof. exact down_wf. Qed.
Print Assumptions C14_down_wellformed.

(* AS_TRANS exactly where a member exceeds 65535, nothing else changes. *)
Theorem C14_down_astrans_exact : forall p,
  fst (down p) = map (fun s => (fst s, map to2 (snd s))) p /\
  forall a, to2 a = (if 65535 <? a then AS_TRANS else a).
Proof. exact down_members. Qed.
Print Assumptions C14_down_astrans_exact.

(* Round trip: for every valid path made of a leading confederation run C followed by a
   SEQUENCE/SET mix R, down-conversion followed by reconstruction succeeds (no panic), yields no
   empty/over-long segment, reads as the same AS sequence with 4-octet confederation members
   masked (the excepted case), and is structurally identical whenever R does not contain two
   adjacent SEQUENCE segments with the first one not full (such segments are joined, which does
   not change the path). *)
Theorem C14_roundtrip : forall C R,
  valid4 (C ++ R) = true -> all_confed C = true -> no_confed R = true ->
  exists q, roundtrip (C ++ R) = Ok q /\
            flat q = flat (mask_confed (C ++ R)) /\
            shape_ok q = true /\
            (canon None R = true -> q = mask_confed (C ++ R)).
Proof. exact roundtrip_ok. Qed.
Print Assumptions C14_roundtrip.

(* Reconstruction from arbitrary wire-valid (AS_PATH, AS4_PATH) pairs never panics, never produces
   an empty or over-long segment, never changes the path length (hence never lengthens it), and
   ignores an AS4_PATH longer than the AS_PATH. *)
Theorem C14_up_safe : forall a a4, valid4 a = true -> valid4 a4 = true ->
  exists q, up a (Some a4) = Ok q /\ shape_ok q = true /\ plen q = plen a /\
            (plen a < plen (strip_confed a4) -> q = a).
Proof. exact up_safe. Qed.
Print Assumptions C14_up_safe.

Theorem C14_aggregator_roundtrip : forall a, let '(d2, d4) := down_agg a in up_agg d2 d4 = a.
Proof. exact agg_roundtrip. Qed.
Print Assumptions C14_aggregator_roundtrip.

Theorem C14_aggregator_down_wellformed : forall a, 0 <= fst a <= 4294967295 ->
  0 <= fst (fst (down_agg a)) <= 65535 /\
  (snd (down_agg a) = None <-> fst a <= 65535) /\
  (forall b, snd (down_agg a) = Some b -> b = a /\ fst (fst (down_agg a)) = AS_TRANS).
Proof. exact agg_down_wf. Qed.
Print Assumptions C14_aggregator_down_wellformed.

(* Non-vacuity: concrete paths meeting the hypotheses, including the two shapes that failed before the fix. *)
Example C14_roundtrip_nonvacuous :
  let C := [(T_CONFED_SEQ, [65001; 80000])] in
  let R := [(T_SET, [70000; 5]); (T_SEQ, [1; 70000; 3])] in
  valid4 (C ++ R) = true /\ all_confed C = true /\ no_confed R = true /\ canon None R = true /\
  roundtrip (C ++ R) = Ok [(T_CONFED_SEQ, [65001; AS_TRANS]); (T_SET, [70000; 5]); (T_SEQ, [1; 70000; 3])].
Proof. vm_compute. repeat split; reflexivity. Qed.

Example C14_up_safe_nonvacuous :
  valid4 [(T_SEQ, [1; 23456; 23456])] = true /\ valid4 [(T_SET, [2; 3]); (T_SEQ, [70000])] = true /\
  up [(T_SEQ, [1; 23456; 23456])] (Some [(T_SET, [2; 3]); (T_SEQ, [70000])]) = Ok [(T_SEQ, [1]); (T_SET, [2; 3]); (T_SEQ, [70000])].
Proof. vm_compute. repeat split; reflexivity. Qed.
