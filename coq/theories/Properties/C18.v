(* C18 -- API and native representations convert losslessly in both directions.
   Statements only.  Model: Conv.Model -- the converters of pkg/apiutil for the attribute universe of Wire.Model, with the
   address text of the API (netip.Addr.String / ParseAddr for IPv4) modelled over character codes, and the policy
   statement converters for the fields listed there.  Everything else the property names (the other attribute types,
   NLRI families, capabilities, AddPath/ListPath) is decided by search in checks/c18.py, not by these theorems. *)
From Coq Require Import List ZArith Bool Lia.
From Verif Require Import Wire.Model Conv.Model Conv.Proofs.
Import ListNotations.
Open Scope Z_scope.

(* an IPv4 address survives being printed and parsed *)
Theorem C18_ip4_text_roundtrip : forall o, octets4 o -> parse_ip4 (show_ip4 o) = Some o.
Proof. exact ip4_text_roundtrip. Qed.
Print Assumptions C18_ip4_text_roundtrip.

(* native -> API -> native is the identity on every attribute of the universe ... *)
Theorem C18_attr_api_roundtrip : forall a, wf_api_attr a -> of_api (to_api a) = Some a.
Proof. exact attr_api_roundtrip. Qed.
Print Assumptions C18_attr_api_roundtrip.

(* ... hence the API value reproduces the same octets on the wire *)
Theorem C18_attr_api_same_bytes : forall a b, wf_api_attr a -> of_api (to_api a) = Some b -> enc_attr b = enc_attr a.
Proof. exact attr_api_same_bytes. Qed.
Print Assumptions C18_attr_api_same_bytes.

(* API -> native -> API is the identity on every API value produced from a native one *)
Theorem C18_api_attr_roundtrip : forall p a a0, wf_api_attr a0 -> p = to_api a0 -> of_api p = Some a -> to_api a = p.
Proof. exact api_attr_roundtrip. Qed.
Print Assumptions C18_api_attr_roundtrip.

(* a policy statement the configuration layer accepts goes to the API form and back unchanged *)
Theorem C18_stmt_api_roundtrip : forall c, wf_cstmt c -> stmt_of_api (stmt_to_api c) = c.
Proof. exact stmt_api_roundtrip. Qed.
Print Assumptions C18_stmt_api_roundtrip.

Example C18_nonvacuous :
  to_api (ANextHop [10; 0; 0; 254]) = PNextHop [49; 48; 46; 48; 46; 48; 46; 50; 53; 52] /\
  of_api (PNextHop [49; 48; 46; 48; 46; 48; 46; 50; 53; 52]) = Some (ANextHop [10; 0; 0; 254]) /\
  of_api (PNextHop [49; 48; 46; 48; 46; 48; 46; 48; 53; 52]) = None /\        (* "10.0.0.054": leading zero *)
  of_api (PNextHop [49; 48; 46; 48; 46; 50; 53; 54]) = None /\                (* "10.0.256": three fields *)
  stmt_to_api (mkCS None None (Some (1, 3)) None (Some 1) None None (Some false) (Some (2, 5)) None (Some (None, 2)) None)
    = mkAS None None (Some (2, 3)) None 2 0 None 2 (Some (1, -5)) None (Some (0, 2, true)) None.
Proof. vm_compute. repeat split; reflexivity. Qed.

Example C18_nonvacuous_wf :
  wf_api_attr (AClusterList [[1; 2; 3; 4]; [255; 0; 0; 1]]) /\
  wf_cstmt (mkCS None None (Some (1, 3)) None (Some 1) None None (Some false) (Some (2, 5)) None (Some (None, 2)) None).
Proof.
  split.
  - cbn. repeat constructor; cbn; lia.
  - unfold wf_cstmt. cbn.
    split; [intros q H; injection H as <-; cbn; lia|]. split; [intros q H; discriminate|].
    split; [intros q H; injection H as <-; lia|]. split; [intros q H; discriminate|]. split; [intros q H; discriminate|].
    split; [intros q H; injection H as <-; cbn; split; [lia|]; right; right; lia|]. split; [discriminate|]. intros q H; discriminate.
Qed.
