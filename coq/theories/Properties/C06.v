(* C06 -- Malformed UPDATEs are contained: never installed, answered per RFC 7606/4271.
   Statements only. Model: Codec.Errors (how the errors of one UPDATE are combined into one reaction); the per-attribute
   error class table is REGENERATED from pkg/packet/bgp/bgp.go getErrorHandlingFromPathAttribute on every run
   (Generated/C06Table.v).  Faults: Codec.Errors.fault. *)
From Coq Require Import List String ZArith Bool.
From Verif Require Import Generated.C06Table Codec.Errors Codec.ErrorsProofs.
Import ListNotations.
Open Scope string_scope.

(* the strongest-error bookkeeping (MessageError.Stronger folded in detection order) keeps the maximum class *)
Theorem C06_strongest_is_max : forall l, strongest CNone l = max_of l.
Proof. exact strongest_is_max. Qed.
Print Assumptions C06_strongest_is_max.

(* with revised error handling a malformed UPDATE gets the strongest reaction any of its faults calls for under
   RFC 7606, for ANY number of faults in ANY order -- decode-time and validation-time faults together *)
Theorem C06_revised_strongest_wins : forall fs,
  Forall fault_in_catalogue fs -> react true fs = max_of (map rfc_class fs).
Proof. exact react_revised_is_rfc. Qed.
Print Assumptions C06_revised_strongest_wins.

(* without it every malformed UPDATE resets the session *)
Theorem C06_unrevised_resets : forall fs,
  Forall fault_in_catalogue fs -> react false fs = match fs with [] => CNone | _ => CReset end.
Proof. exact react_unrevised. Qed.
Print Assumptions C06_unrevised_resets.

(* a well-formed UPDATE is never penalised *)
Theorem C06_wellformed_never_penalised : forall revised, react revised [] = CNone.
Proof. exact wellformed_never_penalised. Qed.
Print Assumptions C06_wellformed_never_penalised.

(* the table in the current source agrees with RFC 7606 on every attribute of the catalogue (a malformed MP_REACH /
   MP_UNREACH asks for AFI/SAFI disable, which is turned into a session reset) *)
Theorem C06_table_matches_rfc : forall a, In a catalogue_attrs -> handling true (table_class a) = rfc_attr_class a.
Proof. exact table_matches_rfc. Qed.
Print Assumptions C06_table_matches_rfc.

(* attribute discard takes the malformed attribute off the route and nothing else: an attribute stays unless ITS OWN
   decoding error is of the discard class, wherever it stands in the UPDATE; with the class table of the current source
   only ATOMIC_AGGREGATE and AGGREGATOR are ever removed *)
Theorem C06_kept_exactly : forall fs attrs a,
  In a (kept_attrs fs attrs) <-> In a attrs /\ own_error fs a <> Some CDiscard.
Proof. exact kept_exactly. Qed.
Print Assumptions C06_kept_exactly.

Theorem C06_wellformed_attribute_stays : forall fs attrs a, In a attrs -> own_error fs a = None -> In a (kept_attrs fs attrs).
Proof. exact kept_wellformed. Qed.
Print Assumptions C06_wellformed_attribute_stays.

Theorem C06_kept_independent_of_position : forall fs l1 l2, kept_attrs fs (l1 ++ l2)%list = (kept_attrs fs l1 ++ kept_attrs fs l2)%list.
Proof. exact kept_app. Qed.
Print Assumptions C06_kept_independent_of_position.

Theorem C06_only_aggregate_attributes_are_discarded : forall fs attrs a,
  In a catalogue_attrs -> In a attrs -> ~ In a (kept_attrs fs attrs) ->
  a = "BGP_ATTR_TYPE_ATOMIC_AGGREGATE" \/ a = "BGP_ATTR_TYPE_AGGREGATOR".
Proof. exact only_aggregate_attributes_are_discarded. Qed.
Print Assumptions C06_only_aggregate_attributes_are_discarded.

Theorem C06_shape_of_generated_table : handling_shape = "ok".
Proof. reflexivity. Qed.

Example C06_nonvacuous :
  react true [FAttrMalformed "BGP_ATTR_TYPE_ATOMIC_AGGREGATE"; FMissing "BGP_ATTR_TYPE_ORIGIN"] = CTaw /\
  react true [FAttrMalformed "BGP_ATTR_TYPE_AGGREGATOR"; FDuplicate "BGP_ATTR_TYPE_MULTI_EXIT_DISC"] = CDiscard /\
  react true [FAttrMalformed "BGP_ATTR_TYPE_ORIGIN"; FNlri] = CReset /\
  react false [FAttrMalformed "BGP_ATTR_TYPE_ATOMIC_AGGREGATE"] = CReset.
Proof. vm_compute. auto. Qed.

Example C06_kept_nonvacuous :
  kept_attrs [FAttrMalformed "BGP_ATTR_TYPE_AGGREGATOR"]
    ["BGP_ATTR_TYPE_ORIGIN"; "BGP_ATTR_TYPE_AGGREGATOR"; "BGP_ATTR_TYPE_COMMUNITIES"; "BGP_ATTR_TYPE_MULTI_EXIT_DISC"]
  = ["BGP_ATTR_TYPE_ORIGIN"; "BGP_ATTR_TYPE_COMMUNITIES"; "BGP_ATTR_TYPE_MULTI_EXIT_DISC"].
Proof. vm_compute. reflexivity. Qed.
