(* C11 -- UPDATE packing preserves the route changes and respects the message size limit.
   Statements only. Model: Pack.Model (message.go CreateUpdateMsgFromPaths / packerV4 / packerMP after
   "fix: IPv4 UPDATE packing dropped or panicked ..."). Attribute byte strings are identities, so every
   theorem holds for EVERY hash function (collisions included) and every map iteration order: those only
   permute the emitted messages, and the theorems are about membership / multisets. *)
From Coq Require Import List ZArith Bool Permutation.
From Verif Require Import Pack.Model Pack.Proofs.
Import ListNotations.
Open Scope Z_scope.

(* Size: every emitted message fits the session limit, or carries exactly one route -- whose own
   single-route encoding is then what does not fit; it is refused (and logged) by Serialize in the send
   loop and no other route shares its fate. No panic, no silent omission (see C11_no_loss_no_dup). *)
Theorem C11_size_or_isolated : forall o l, wf_paths o l ->
  forall m, In m (create o l) -> size o m <= o_limit o \/ (length (carried m) <= 1)%nat.
Proof. exact size_ok. Qed.
Print Assumptions C11_size_or_isolated.

(* Hence: if every single-route message fits, all messages fit. *)
Theorem C11_all_fit : forall o l, wf_paths o l ->
  (forall m, In m (create o l) -> (length (carried m) <= 1)%nat -> size o m <= o_limit o) ->
  forall m, In m (create o l) -> size o m <= o_limit o.
Proof. exact all_fit. Qed.
Print Assumptions C11_all_fit.

(* Nothing lost, nothing duplicated: the routes carried by the messages are, as a multiset, exactly the
   de-duplicated change list. *)
Theorem C11_no_loss_no_dup : forall o l,
  Permutation (flat_map carried (create o l)) (filter not_eor (dedup_last l)).
Proof. exact carried_perm. Qed.
Print Assumptions C11_no_loss_no_dup.

(* ... where de-duplication keeps exactly the LAST action per (family, prefix, path id). *)
Theorem C11_last_action_wins : forall l x, is_eor x = false ->
  (In x (dedup_last l) <->
   exists l1 l2, l = l1 ++ x :: l2 /\ forall y, In y l2 -> is_eor y = true \/ same_key x y = false).
Proof. exact dedup_last_spec. Qed.
Print Assumptions C11_last_action_wins.

(* Routes share a message only when their attribute bytes and next hops are identical; withdrawals and
   announcements sit in the right field of a message of their own family. *)
Theorem C11_share_only_equal : forall o l m, In m (create o l) -> msg_coherent m.
Proof. exact share_only_equal. Qed.
Print Assumptions C11_share_only_equal.

(* End-of-RIB markers are kept, one per family that had one. *)
Theorem C11_eor_kept : forall o l f,
  In (MEor f) (create o l) <-> exists p, In p l /\ is_eor p = true /\ p_fam p = f.
Proof. exact eor_kept. Qed.
Print Assumptions C11_eor_kept.

(* Non-vacuity, and the input that panicked / vanished before the fix: attributes of 4079 octets on a
   4096-octet session now yield one oversize single-route message plus the unaffected other route. *)
Definition ex_big := {| p_fam := 1; p_key := 280; p_pid := 0; p_kind := 0; p_attrs := 4; p_alen := 4079; p_nhk := 0; p_nlen := 4 |}.
Definition ex_small := {| p_fam := 1; p_key := 536; p_pid := 0; p_kind := 0; p_attrs := 8; p_alen := 27; p_nhk := 0; p_nlen := 4 |}.
Example C11_oversize_isolated_nonvacuous :
  let o := {| o_limit := 4096; o_ap := 0 |} in
  create o [ex_big; ex_small] = [MU4 ex_big [ex_big]; MU4 ex_small [ex_small]] /\
  size o (MU4 ex_big [ex_big]) = 4106 /\ size o (MU4 ex_small [ex_small]) = 54 /\
  wf_paths o [ex_big; ex_small].
Proof.
  cbv zeta. split; [vm_compute; reflexivity|]. split; [vm_compute; reflexivity|]. split; [vm_compute; reflexivity|].
  unfold wf_paths. split; [simpl; discriminate|]. split; [simpl; discriminate|].
  intros p [<-|[<-|[]]]; simpl; split; intros; discriminate.
Qed.
