(* C08 -- Session parameters are negotiated as the intersection of both OPEN messages.
   Statements only. Model: Session.Negotiate. All statements hold for EVERY local configuration and
   EVERY received OPEN (any capability list: duplicates, unknown codes, absent multiprotocol). *)
From Coq Require Import List ZArith Bool.
From Verif Require Import Session.Negotiate Session.NegotiateProofs.
Import ListNotations.
Open Scope Z_scope.

(* An accepted OPEN has version 4, a usable BGP identifier, the expected AS (when one is configured),
   and a hold time of 0 or at least 3. *)
Theorem C08_open_accepted_only_if : forall l o, validate_open l o = Accept ->
  o_ver o = 4 /\ o_id o <> 0 /\ ~ (remote_as o = l_as l /\ o_id o = l_id l) /\
  (l_peeras l = 0 \/ remote_as o = l_peeras l) /\ (o_hold o = 0 \/ 3 <= o_hold o).
Proof. exact validate_accept. Qed.
Print Assumptions C08_open_accepted_only_if.

(* ... and each unacceptable OPEN gets the NOTIFICATION the RFC names: (2,1) version, (2,3) identifier,
   (2,2) peer AS, (2,6) hold time 1 or 2. *)
Theorem C08_open_refusals : forall l o,
  (o_ver o <> 4 -> validate_open l o = Notif 2 1) /\
  (o_ver o = 4 -> o_id o = 0 -> validate_open l o = Notif 2 3) /\
  (o_ver o = 4 -> o_id o <> 0 -> remote_as o = l_as l -> o_id o = l_id l -> validate_open l o = Notif 2 3) /\
  (o_ver o = 4 -> o_id o <> 0 -> ~ (remote_as o = l_as l /\ o_id o = l_id l) ->
     l_peeras l <> 0 -> remote_as o <> l_peeras l -> validate_open l o = Notif 2 2) /\
  (o_ver o = 4 -> o_id o <> 0 -> ~ (remote_as o = l_as l /\ o_id o = l_id l) ->
     (l_peeras l = 0 \/ remote_as o = l_peeras l) -> (o_hold o = 1 \/ o_hold o = 2) -> validate_open l o = Notif 2 6).
Proof. exact validate_notifications. Qed.
Print Assumptions C08_open_refusals.

Theorem C08_holdtime_is_min : forall l o, s_hold (negotiate l o) = Z.min (l_hold l) (o_hold o).
Proof. exact hold_is_min. Qed.
Print Assumptions C08_holdtime_is_min.

(* keepalive: a third of the negotiated hold time when that is below the configured hold time, else the
   configured interval; no keepalive ticker at all when the hold time is 0; the ticker never runs faster
   than 1 s. (s_ka3 is three times the interval.) *)
Theorem C08_keepalive : forall l o,
  let s := negotiate l o in
  (s_hold s < l_hold l -> s_ka3 s = s_hold s) /\
  (l_hold l <= s_hold s -> s_ka3 s = 3 * l_ka l) /\
  (s_hold s = 0 -> s_ticker s = 0) /\
  (s_hold s <> 0 -> s_ticker s = Z.max 1 (s_ka3 s / 3) \/ (s_ka3 s / 3 < 0 /\ s_ticker s = s_ka3 s / 3)).
Proof. exact keepalive_rule. Qed.
Print Assumptions C08_keepalive.

(* Families: exactly configured /\ announced, one entry per family, with the ADD-PATH mode computed from
   the LAST local entry and the LAST received tuple of that family. *)
Theorem C08_families_are_intersection : forall l o f m,
  In (f, m) (negotiated_fams l o) <->
  In f (map fc_fam (l_fams l)) /\ In f (remote_fams o) /\
  exists lm, local_mode_of l f = Some lm /\ m = nego_mode lm (remote_mode o f).
Proof. exact families_are_intersection. Qed.
Print Assumptions C08_families_are_intersection.

Theorem C08_families_one_entry_each : forall l o, NoDup (map fst (negotiated_fams l o)).
Proof. exact negotiated_fams_nodup. Qed.
Print Assumptions C08_families_one_entry_each.

(* the peer's families are its multiprotocol capabilities; none at all means IPv4 unicast *)
Theorem C08_announced_families : forall o,
  (has_mp o = false -> remote_fams o = [1]) /\
  (forall f, has_mp o = true -> (In f (remote_fams o) <-> In (CMp f) (o_caps o))).
Proof. exact remote_fams_spec. Qed.
Print Assumptions C08_announced_families.

(* ADD-PATH direction: send iff we send and the peer receives; receive iff we receive and the peer sends *)
Theorem C08_addpath_complementary : forall lm rm, 0 <= lm <= 3 -> 0 <= rm <= 3 ->
  bit (nego_mode lm rm) 1 = bit lm 1 && bit rm 0 /\ bit (nego_mode lm rm) 0 = bit lm 0 && bit rm 1 /\ 0 <= nego_mode lm rm <= 3.
Proof. exact nego_mode_bits. Qed.
Print Assumptions C08_addpath_complementary.

Theorem C08_addpath_last_tuple_wins : forall o f pre m post,
  ap_tuples o = pre ++ (f, m) :: post -> (forall t, In t post -> fst t <> f) -> remote_mode o f = m.
Proof. exact remote_mode_last. Qed.
Print Assumptions C08_addpath_last_tuple_wins.

(* 4-octet AS_PATH encoding iff the peer announced the capability (the local side always does, see
   C08_open_reflects_config); extended messages iff the peer announced Extended Message; the peer's kind
   for validation and, when no peer AS is configured, its published type come from the AS it announced. *)
Theorem C08_as4_extmsg_peertype : forall l o,
  let s := negotiate l o in
  s_two_byte s = negb (has_as4 o) /\ s_extmsg s = has_ext o /\ s_peeras s = remote_as o /\
  s_ebgp s = negb (remote_as o =? l_as l) /\
  (l_peeras l = 0 -> s_type_ext s = negb (l_as l =? remote_as o)) /\
  (l_peeras l <> 0 -> s_type_ext s = l_ext l).
Proof.
  intros l o. cbv zeta. unfold negotiate; cbn. repeat split; try reflexivity.
  - intros ->. reflexivity.
  - intros H. apply Z.eqb_neq in H. now rewrite H.
Qed.
Print Assumptions C08_as4_extmsg_peertype.

(* The OPEN sent reflects the configuration: version 4, configured hold time and router id, AS_TRANS in
   the 2-octet field iff the local AS needs 4 octets, the 4-octet-AS capability with the real AS (so a
   receiver reads back exactly the local AS), Extended Message, Route Refresh, and exactly the configured
   families as multiprotocol capabilities. *)
Theorem C08_open_reflects_config : forall l,
  let o := build_open l in
  o_ver o = 4 /\ o_hold o = l_hold l /\ o_id o = l_id l /\
  (l_as l <= 65535 -> o_as o = l_as l) /\ (65535 < l_as l -> o_as o = AS_TRANS) /\
  In (CAs4 (l_as l)) (o_caps o) /\ In CExt (o_caps o) /\ In CRr (o_caps o) /\
  (forall f, In (CMp f) (o_caps o) <-> In f (map fc_fam (l_fams l))) /\
  remote_as o = l_as l.
Proof. exact build_open_fields. Qed.
Print Assumptions C08_open_reflects_config.

(* Non-vacuity: a configuration and an OPEN with duplicate ADD-PATH capabilities and an unknown one. *)
Definition ex_l := {| l_as := 70000; l_peeras := 0; l_ext := true; l_hold := 90; l_ka := 30; l_id := 16843009; l_members := [];
                      l_gr := true; l_grnotif := true; l_grtime := 120;
                      l_fams := [ {| fc_fam := 1; fc_recv := true; fc_sendmax := 2; fc_gr := true |}; {| fc_fam := 2; fc_recv := false; fc_sendmax := 0; fc_gr := false |} ] |}.
Definition ex_o := {| o_ver := 4; o_as := 23456; o_hold := 30; o_id := 33686018;
                      o_caps := [CAp [(1, 1)]; CMp 1; CUnk 99; CAs4 70000; CAp [(1, 3)]; CExt; CGr 12 60 [1]] |}.
Example C08_negotiate_nonvacuous :
  validate_open ex_l ex_o = Accept /\ s_hold (negotiate ex_l ex_o) = 30 /\ s_ticker (negotiate ex_l ex_o) = 10 /\
  s_fams (negotiate ex_l ex_o) = [(1, 3)] /\ s_two_byte (negotiate ex_l ex_o) = false /\ s_type_ext (negotiate ex_l ex_o) = false /\
  o_as (build_open ex_l) = 23456.
Proof. vm_compute. repeat split; reflexivity. Qed.
