(* C19 -- MRT, BMP, RTR, Zebra and BFD codecs decode safely and round-trip.
   Statements only. Model: Codecs.Model. PARTIAL by construction: the theorems cover RTR (all PDU
   decoders; round trips of the fixed-layout PDUs), the BFD control header and the MRT/BMP stream
   splitters; BMP/MRT message bodies and all ZAPI bodies are searched, not proved (see the check). *)
From Coq Require Import List ZArith Bool.
From Verif Require Import Common.Res Common.Bytes Codecs.Model Codecs.Proofs.
Import ListNotations.
Open Scope Z_scope.

(* For EVERY byte string, ParseRTR returns a PDU or an error: no index/slice panic (the model's accessors
   panic exactly where Go's would), no unbounded loop. *)
Theorem C19_rtr_decode_safe : forall d, bytes_ok d -> parse_rtr d <> Panic /\ parse_rtr d <> OutOfFuel.
Proof. exact parse_rtr_safe. Qed.
Print Assumptions C19_rtr_decode_safe.

(* Every PDU the constructors build (Serial Notify / Serial Query / End of Data, Reset Query / Cache
   Reset, Cache Response, IPv4 Prefix) serialises to exactly its fixed size and parses back to itself. *)
Theorem C19_rtr_common_roundtrip : forall typ sess serial,
  (typ = 0 \/ typ = 1 \/ typ = 7) -> 0 <= sess < 65536 -> 0 <= serial < 4294967296 ->
  exists b, serialize_rtr (new_common typ sess serial) = Ok b /\ parse_rtr b = Ok (new_common typ sess serial) /\ blen b = 12.
Proof. exact common_roundtrip. Qed.
Print Assumptions C19_rtr_common_roundtrip.

Theorem C19_rtr_reset_roundtrip : forall typ, (typ = 2 \/ typ = 8) ->
  exists b, serialize_rtr (new_reset typ) = Ok b /\ parse_rtr b = Ok (new_reset typ) /\ blen b = 8.
Proof. exact reset_roundtrip. Qed.
Print Assumptions C19_rtr_reset_roundtrip.

Theorem C19_rtr_response_roundtrip : forall sess, 0 <= sess < 65536 ->
  exists b, serialize_rtr (new_resp sess) = Ok b /\ parse_rtr b = Ok (new_resp sess) /\ blen b = 8.
Proof. exact resp_roundtrip. Qed.
Print Assumptions C19_rtr_response_roundtrip.

Theorem C19_rtr_prefix4_roundtrip : forall a b c d plen maxlen asn flags p,
  byte_ok a -> byte_ok b -> byte_ok c -> byte_ok d -> 0 <= plen -> 0 <= maxlen < 256 -> 0 <= flags < 256 -> 0 <= asn < 4294967296 ->
  new_pfx false [a; b; c; d] plen maxlen asn flags = Some p ->
  exists bs, serialize_rtr p = Ok bs /\ parse_rtr bs = Ok p /\ blen bs = 20.
Proof. exact pfx4_roundtrip. Qed.
Print Assumptions C19_rtr_prefix4_roundtrip.

(* BFD control header: decoding never panics; every valid header round-trips through 24 octets. *)
Theorem C19_bfd_decode_safe : forall d, bfd_unmarshal d <> Panic /\ bfd_unmarshal d <> OutOfFuel.
Proof. exact bfd_unmarshal_safe. Qed.
Print Assumptions C19_bfd_decode_safe.

Theorem C19_bfd_roundtrip : forall h,
  0 <= b_ver h <= 7 -> 0 <= b_diag h <= 31 -> 0 <= b_state h <= 3 -> 0 <= b_mult h < 256 ->
  0 <= b_my h < 4294967296 -> 0 <= b_your h < 4294967296 -> 0 <= b_tx h < 4294967296 -> 0 <= b_rx h < 4294967296 ->
  exists bs, bfd_marshal h = Ok bs /\ bfd_unmarshal bs = Ok h /\ blen bs = 24.
Proof. exact bfd_roundtrip. Qed.
Print Assumptions C19_bfd_roundtrip.

(* Stream splitters: never a panic; a returned token is a prefix of the data given (never longer, never
   bytes beyond it) of exactly `advance` octets, and `advance` covers at least the common header -- so a
   bufio.Scanner always makes progress; "need more data" advances by 0. *)
Theorem C19_split_mrt : forall eof vis, bytes_ok vis ->
  (split_mrt eof vis <> Panic /\ split_mrt eof vis <> OutOfFuel) /\
  forall adv tok, split_mrt eof vis = Ok (adv, tok) ->
    match tok with None => adv = 0 | Some t => t = firstn (Z.to_nat adv) vis /\ 12 <= adv <= blen vis end.
Proof. exact split_mrt_spec. Qed.
Print Assumptions C19_split_mrt.

Theorem C19_split_bmp : forall eof vis, bytes_ok vis ->
  (split_bmp eof vis <> Panic /\ split_bmp eof vis <> OutOfFuel) /\
  forall adv tok, split_bmp eof vis = Ok (adv, tok) ->
    match tok with None => adv = 0 | Some t => t = firstn (Z.to_nat adv) vis /\ 6 <= adv <= blen vis end.
Proof. exact split_bmp_spec. Qed.
Print Assumptions C19_split_bmp.

(* Non-vacuity / regression witnesses: the wrapped MRT length and the zero BMP length no longer stall. *)
Example C19_split_nonvacuous :
  split_mrt false [0;0;0;1; 0;13; 0;1; 255;255;255;244; 170;187;204;221] = Ok (0, None) /\
  split_bmp false [3; 0;0;0;0; 4; 170] = Err 1 /\
  split_mrt false [0;0;0;1; 0;13; 0;1; 0;0;0;2; 170;187; 9] = Ok (14, Some [0;0;0;1; 0;13; 0;1; 0;0;0;2; 170;187]).
Proof. vm_compute. repeat split; reflexivity. Qed.
