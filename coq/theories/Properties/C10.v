(* C10 -- Policy evaluation equals the documented model.
   Statements only. Model: Policy.Interp (IPv4 routes, flat AS_PATH, exact community sets).  The theorems hold for EVERY
   policy configuration of the modelled shape and EVERY route. *)
From Coq Require Import List ZArith Bool.
From Verif Require Import Policy.Interp Policy.InterpProofs.
Import ListNotations.
Open Scope Z_scope.

Theorem C10_policies_in_order : forall r ps, apply_policies r ps = apply_stmts r (concat ps).
Proof. exact policies_flatten. Qed.
Print Assumptions C10_policies_in_order.

Theorem C10_sequencing : forall r l1 l2,
  apply_stmts r (l1 ++ l2) =
  match apply_stmts r l1 with (Some v, r') => (Some v, r') | (None, r') => apply_stmts r' l2 end.
Proof. exact apply_stmts_app. Qed.
Print Assumptions C10_sequencing.

Theorem C10_statement_applies_when_all_conditions_hold : forall r s,
  (applies r s = false -> apply_stmt r s = (None, r)) /\
  (applies r s = true -> apply_stmt r s = (st_route s, fold_left apply_action (st_mods s) r)).
Proof. intros r s. split; [apply stmt_not_applicable|apply stmt_applicable]. Qed.
Print Assumptions C10_statement_applies_when_all_conditions_hold.

Theorem C10_first_verdict_decides : forall r l1 s l2 r1 v,
  apply_stmts r l1 = (None, r1) -> applies r1 s = true -> st_route s = Some v ->
  apply_stmts r (l1 ++ s :: l2) = (Some v, fold_left apply_action (st_mods s) r1).
Proof. exact first_verdict_decides. Qed.
Print Assumptions C10_first_verdict_decides.

Theorem C10_default : forall def r ps,
  (forall r', apply_policies r ps = (None, r') -> apply_policy def r ps = if def then Some r' else None) /\
  (forall v r', apply_policies r ps = (Some v, r') -> apply_policy def r ps = if v then Some r' else None).
Proof. intros def r ps. split; [apply default_applies|apply verdict_overrides_default]. Qed.
Print Assumptions C10_default.

Theorem C10_prefix_condition : forall r set inv,
  eval_cond r (CPrefix set inv) = true <->
  (if inv then ~ (exists a l mn mx, In (a, l, mn, mx) set /\ l <= pr_len r /\ pfx_contains a l (pr_addr r) = true /\ mn <= pr_len r <= mx)
   else exists a l mn mx, In (a, l, mn, mx) set /\ l <= pr_len r /\ pfx_contains a l (pr_addr r) = true /\ mn <= pr_len r <= mx).
Proof. exact prefix_condition_spec. Qed.
Print Assumptions C10_prefix_condition.

Theorem C10_community_condition : forall r set opt,
  eval_cond r (CCommunity set opt) = true <->
  (if opt =? 1 then forall c, In c set -> In c (pr_comms r)
   else if opt =? 2 then ~ (exists c, In c set /\ In c (pr_comms r))
   else exists c, In c set /\ In c (pr_comms r)).
Proof. exact community_condition_spec. Qed.
Print Assumptions C10_community_condition.

Theorem C10_action_frame : forall r a,
  let r' := apply_action r a in
  pr_addr r' = pr_addr r /\ pr_len r' = pr_len r /\ pr_neighbor r' = pr_neighbor r /\ pr_ibgp r' = pr_ibgp r /\
  pr_origin r' = pr_origin r /\ pr_nh r' = pr_nh r.
Proof. exact action_frame. Qed.
Print Assumptions C10_action_frame.

Theorem C10_med_action : forall r v,
  pr_med (apply_action r (AMed true v)) = Some v /\
  (let m := (match pr_med r with Some x => x | None => 0 end) + v in
   pr_med (apply_action r (AMed false v)) = if (m <? 0) || (4294967295 <? m) then pr_med r else Some m).
Proof. exact med_action_spec. Qed.
Print Assumptions C10_med_action.

Theorem C10_community_actions : forall r l,
  pr_comms (apply_action r (ACommAdd l)) = pr_comms r ++ l /\
  pr_comms (apply_action r (ACommReplace l)) = l /\
  (forall c, In c (pr_comms (apply_action r (ACommRemove l))) <-> In c (pr_comms r) /\ ~ In c l).
Proof. exact community_actions_spec. Qed.
Print Assumptions C10_community_actions.

Definition ex_r := mkPR 167837696 24 (Some 167772161) false 0 [65001; 100] 167772161 (Some 10) None [6553601].
Definition ex_ps := [[mkSt [CPrefix [(167772160, 8, 16, 24)] false] [AMed false 5; ACommAdd [6553602]] None;
                      mkSt [CCommunity [6553602] 0] [ALocalPref 300] (Some true)];
                     [mkSt [] [] (Some false)]].
Example C10_nonvacuous :
  option_map (fun r => (pr_med r, pr_lp r, pr_comms r)) (apply_policy false ex_r ex_ps) = Some (Some 15, Some 300, [6553601; 6553602]).
Proof. vm_compute. reflexivity. Qed.
