(* C04 -- BGP wire codec: encode and decode are mutually inverse and agree on framing.
   Statements only. Model: Wire.Model (header, UPDATE with IPv4 NLRI / ADD-PATH identifiers and the path attributes
   ORIGIN .. CLUSTER_LIST plus opaque unknown attributes, KEEPALIVE, NOTIFICATION, ROUTE-REFRESH).  OPEN, MP_REACH /
   MP_UNREACH and the other NLRI families are covered by the correspondence harness only. *)
From Coq Require Import List ZArith Bool.
From Verif Require Import Common.Res Common.Bytes Wire.Model Wire.Proofs.
Import ListNotations.
Open Scope Z_scope.

(* every well-formed message serialises (within the size limit of the session options) to bytes that parse back to the
   same message under the same options; the length field counts exactly the octets emitted *)
Theorem C04_message_roundtrip : forall ext ap m b,
  msg_wf ap m -> enc_msg ext ap m = Some b ->
  dec_msg ap b = Some m /\ blen b = 19 + blen (enc_body ap m) /\ blen b <= max_len ext (msg_type m).
Proof. exact message_roundtrip. Qed.
Print Assumptions C04_message_roundtrip.

Theorem C04_update_roundtrip : forall ap u, update_wf ap u -> dec_update ap (enc_update ap u) = Some u.
Proof. exact update_roundtrip. Qed.
Print Assumptions C04_update_roundtrip.

(* each attribute, followed by anything: decoded back exactly, consuming exactly its own octets *)
Theorem C04_attribute_roundtrip : forall a rest,
  attr_wf a -> blen (attr_body a) < 65536 -> dec_attr (enc_attr a ++ rest) = Some (a, rest).
Proof. exact attr_roundtrip. Qed.
Print Assumptions C04_attribute_roundtrip.

(* Len() = octets emitted; the extended-length form is used exactly for values above 255 octets *)
Theorem C04_attribute_length_agrees : forall a, blen (enc_attr a) = attr_len a.
Proof. exact attr_len_agrees. Qed.
Print Assumptions C04_attribute_length_agrees.

Theorem C04_prefix_roundtrip : forall ap p rest, pfx_wf ap p -> dec_prefix ap (enc_prefix ap p ++ rest) = Some (p, rest).
Proof. exact prefix_roundtrip. Qed.
Print Assumptions C04_prefix_roundtrip.

Theorem C04_prefix_length_agrees : forall p, pfx_wf false p -> blen (enc_prefix false p) = 1 + octets_of (pf_len p).
Proof. exact prefix_len_agrees. Qed.
Print Assumptions C04_prefix_length_agrees.

Theorem C04_nlri_block_roundtrip : forall ap l fuel,
  Forall (pfx_wf ap) l -> blen (enc_prefixes ap l) <= Z.of_nat fuel -> dec_prefixes fuel ap (enc_prefixes ap l) = Some l.
Proof. exact prefixes_roundtrip. Qed.
Print Assumptions C04_nlri_block_roundtrip.

Definition ex_u := mkU [mkPfx 0 8 [10]] [AOrigin 0; AAsPath [(2, [65001; 4200000000])]; ANextHop [10; 0; 0; 1]; AMed 5; ACommunities [6553601];
                                      AUnknown 192 200 (repeat 7 300)] [mkPfx 0 24 [10; 1; 0]; mkPfx 0 17 [10; 2; 128]].
Example C04_nonvacuous :
  (exists b, enc_msg false false (MUpdate ex_u) = Some b /\ dec_msg false b = Some (MUpdate ex_u) /\ blen b = 375) /\
  enc_msg false false (MUpdate (mkU [] [AUnknown 192 200 (repeat 7 5000)] [])) = None /\
  (exists b, enc_msg true false (MUpdate (mkU [] [AUnknown 192 200 (repeat 7 5000)] [])) = Some b).
Proof. split; [eexists; split; [vm_compute; reflexivity|split; vm_compute; reflexivity]|split; [vm_compute; reflexivity|eexists; vm_compute; reflexivity]]. Qed.
