(* C04 -- BGP wire codec: encode and decode are mutually inverse and agree on framing.
   Statements only. Model: Wire.Model (header, UPDATE with IPv4 NLRI / ADD-PATH identifiers and the path attributes
   ORIGIN .. CLUSTER_LIST plus opaque unknown attributes, KEEPALIVE, NOTIFICATION, ROUTE-REFRESH) and Wire.Families (the
   NLRI of the ten core families IPv4/IPv6 x unicast, multicast, labelled, VPN, multicast VPN, as NLRIFromSlice dispatches
   them).  OPEN, the MP_REACH / MP_UNREACH envelopes and the remaining families are covered by the correspondence harness only. *)
From Coq Require Import List ZArith Bool Lia.
From Verif Require Import Common.Res Common.Bytes Wire.Model Wire.Proofs Wire.Families Wire.FamiliesProofs.
Import ListNotations.
Open Scope Z_scope.

(* every well-formed message serialises (within the size limit of the session options) to bytes that parse back to the
   same message under the same options; the length field counts exactly the octets emitted *)
Theorem C04_message_roundtrip : forall ext ap m b,
  msg_wf ap m -> enc_msg ext ap m = Some b ->
  dec_msg ap b = Some m /\ blen b = 19 + blen (enc_body ap m) /\ blen b <= max_len ext (msg_type m).
Proof. exact message_roundtrip. Qed.
Print Assumptions C04_message_roundtrip.

Theorem C04_update_roundtrip : forall ap u, update_wf ap u -> dec_update ap (enc_update ap u) = Some u.
Proof. exact update_roundtrip. Qed.
Print Assumptions C04_update_roundtrip.

(* each attribute, followed by anything: decoded back exactly, consuming exactly its own octets *)
Theorem C04_attribute_roundtrip : forall a rest,
  attr_wf a -> blen (attr_body a) < 65536 -> dec_attr (enc_attr a ++ rest) = Some (a, rest).
Proof. exact attr_roundtrip. Qed.
Print Assumptions C04_attribute_roundtrip.

(* Len() = octets emitted; the extended-length form is used exactly for values above 255 octets *)
Theorem C04_attribute_length_agrees : forall a, blen (enc_attr a) = attr_len a.
Proof. exact attr_len_agrees. Qed.
Print Assumptions C04_attribute_length_agrees.

Theorem C04_prefix_roundtrip : forall ap p rest, pfx_wf ap p -> dec_prefix ap (enc_prefix ap p ++ rest) = Some (p, rest).
Proof. exact prefix_roundtrip. Qed.
Print Assumptions C04_prefix_roundtrip.

Theorem C04_prefix_length_agrees : forall p, pfx_wf false p -> blen (enc_prefix false p) = 1 + octets_of (pf_len p).
Proof. exact prefix_len_agrees. Qed.
Print Assumptions C04_prefix_length_agrees.

Theorem C04_nlri_block_roundtrip : forall ap l fuel,
  Forall (pfx_wf ap) l -> blen (enc_prefixes ap l) <= Z.of_nat fuel -> dec_prefixes fuel ap (enc_prefixes ap l) = Some l.
Proof. exact prefixes_roundtrip. Qed.
Print Assumptions C04_nlri_block_roundtrip.

Definition ex_u := mkU [mkPfx 0 8 [10]] [AOrigin 0; AAsPath [(2, [65001; 4200000000])]; ANextHop [10; 0; 0; 1]; AMed 5; ACommunities [6553601];
                                      AUnknown 192 200 (repeat 7 300)] [mkPfx 0 24 [10; 1; 0]; mkPfx 0 17 [10; 2; 128]].
Example C04_nonvacuous :
  (exists b, enc_msg false false (MUpdate ex_u) = Some b /\ dec_msg false b = Some (MUpdate ex_u) /\ blen b = 375) /\
  enc_msg false false (MUpdate (mkU [] [AUnknown 192 200 (repeat 7 5000)] [])) = None /\
  (exists b, enc_msg true false (MUpdate (mkU [] [AUnknown 192 200 (repeat 7 5000)] [])) = Some b).
Proof. split; [eexists; split; [vm_compute; reflexivity|split; vm_compute; reflexivity]|split; [vm_compute; reflexivity|eexists; vm_compute; reflexivity]]. Qed.

(* ---- the NLRI of the core families, by family (AFI 1/2 x SAFI 1, 2, 4, 128, 129) *)
(* what Serialize emits, followed by anything, is read back by NLRIFromSlice of the same family as the same value,
   which reports as its length exactly the octets emitted; the address length is 4 for AFI 1 and 16 for AFI 2 *)
Theorem C04_core_family_nlri_roundtrip : forall afi safi v rest, core_family afi safi ->
  (forall k a, family_kind afi safi = Some (k, a) -> fnlri_wf k a v) ->
  exists k a b, family_kind afi safi = Some (k, a) /\ a = (if afi =? 1 then 4 else 16) /\
                nlri_serialize afi safi v = Some b /\ blen b = fnlri_len k v /\ nlri_from_slice afi safi (b ++ rest) = Some (v, blen b).
Proof. exact nlri_family_roundtrip. Qed.
Print Assumptions C04_core_family_nlri_roundtrip.

(* for every byte string the decoder accepts: the length it reports is the Len() of the value, at least one octet and
   within the buffer, so the MP_REACH / MP_UNREACH loops never run past the attribute *)
Theorem C04_core_family_nlri_length_consumed : forall k alen d v n,
  bytes_ok d -> dec_fnlri k alen d = Some (v, n) -> n = fnlri_len k v /\ 1 <= n <= blen d.
Proof. exact dec_fnlri_consumes. Qed.
Print Assumptions C04_core_family_nlri_length_consumed.

(* for every byte string the decoder accepts: the value re-serialises to octets that parse back to the same value with
   the same length (a fixpoint), PARTIAL: provided no label above the bottom of the decoded stack is 0 or 0x80000 *)
Theorem C04_core_family_nlri_reparse_fixpoint_partial : forall k alen d v n rest,
  bytes_ok d -> dec_fnlri k alen d = Some (v, n) -> (k = KPlain \/ labels_wf (f_labels v)) ->
  exists b, enc_fnlri k v = Some b /\ blen b = n /\ dec_fnlri k alen (b ++ rest) = Some (v, n).
Proof. exact dec_fnlri_fixpoint. Qed.
Print Assumptions C04_core_family_nlri_reparse_fixpoint_partial.

(* ... and without that premise the statement is false: known finding mpls-label-above-the-bottom-reads-as-withdraw-label *)
Theorem C04_label_above_bottom_refuted :
  exists v b, enc_fnlri KLabelled v = Some b /\ Forall label_ok (f_labels v) /\ pfx_part_wf 4 (f_bits v) (f_oct v) /\
              dec_fnlri KLabelled 4 b <> Some (v, blen b).
Proof. exact label_above_bottom_refuted. Qed.
Print Assumptions C04_label_above_bottom_refuted.

(* a whole MP_REACH_NLRI / MP_UNREACH_NLRI NLRI field of a core family, with or without ADD-PATH identifiers: the loop
   (identifier, NLRIFromSlice, advance by Len()) reads back exactly the list that was serialised *)
Theorem C04_mp_nlri_field_roundtrip : forall ap k alen l fuel,
  Forall (entry_wf ap k alen) l ->
  exists b, enc_nlri_list ap k l = Some b /\ ((length l <= fuel)%nat -> dec_nlri_list fuel ap k alen b = Some l).
Proof. intros ap k alen l fuel. exact (nlri_list_roundtrip ap k alen l fuel). Qed.
Print Assumptions C04_mp_nlri_field_roundtrip.

Definition ex_vpn6 := mkF [100; 200] [0; 2; 0; 0; 253; 232; 0; 100] 56 [32; 1; 13; 184; 0; 3; 0].
Example C04_core_family_nonvacuous :
  core_family 2 129 /\ fnlri_wf KVpn 16 ex_vpn6 /\ family_kind 2 129 = Some (KVpn, 16) /\
  (exists b, nlri_serialize 2 129 ex_vpn6 = Some b /\ blen b = 22 /\ nlri_from_slice 2 129 (b ++ [1; 2; 3]) = Some (ex_vpn6, 22)) /\
  (* read with the address length of the wrong AFI, the same octets are refused *)
  match nlri_serialize 2 129 ex_vpn6 with Some b => nlri_from_slice 1 129 b | None => None end = None.
Proof.
  split; [split; [right; reflexivity|do 4 right; reflexivity]|]. split.
  - split; [vm_compute; repeat split; discriminate|]. split.
    + right. split; [discriminate|]. split; [repeat constructor; unfold label_ok; lia|repeat constructor; unfold upper_ok; lia].
    + split; [reflexivity|vm_compute; reflexivity].
  - split; [reflexivity|]. split; [eexists; split; [vm_compute; reflexivity|split; vm_compute; reflexivity]|vm_compute; reflexivity].
Qed.
