(* C15 -- Soft reset and route refresh equal a fresh evaluation under the current policy.
   Statements only.  Model: Reset.Model (policy evaluation is a parameter [ev]: the theorems hold for every policy
   language and configuration); Reset.Concrete instantiates it with the C10 interpreter for the correspondence check.
   Scope: global import/export policy, established sessions, routes received from peers, IPv4 unicast, no ADD-PATH. *)
From Coq Require Import List ZArith Bool.
From Verif Require Import Decision.Model Speaker.Model Policy.Interp Reset.Model Reset.Proofs Reset.Concrete.
Import ListNotations.
Open Scope Z_scope.

(* The main statement.  Take ANY history of announcements, withdrawals, clock steps, policy replacements, soft resets and
   route refreshes, in any order (so also route changes between a policy change and the reset).  Compare the state it
   ends in with the state of the run in which the final policies were in force from the start and only the route events
   happened.  The Adj-RIB-Ins are equal; if no peer has had an import-policy change since its last soft reset in, the
   Loc-RIBs are equal entry by entry; and every peer that in addition had no export-policy change since its last soft
   reset out (or route refresh) holds exactly the same routes with the same attributes. *)
Theorem C15_soft_reset_is_fresh : forall (P : Type) (ev : P -> Z -> Z -> attrs -> option attrs) g peers Ei Ee h,
  let s := run ev g peers Ei Ee h in
  let f := run ev g peers (r_imp s) (r_exp s) (filter is_route_event h) in
  (forall i k, r_adj s i k = r_adj f i k) /\
  ((forall i c, conf_of peers i = Some c -> r_din s i = false) -> forall k j, r_rib s k j = r_rib f k j) /\
  ((forall i c, conf_of peers i = Some c -> r_din s i = false) ->
   forall q qc, conf_of peers q = Some qc -> r_dout s q = false -> forall k, r_view s q k = r_view f q k).
Proof. exact @soft_reset_is_fresh. Qed.
Print Assumptions C15_soft_reset_is_fresh.

(* What one reset establishes, whatever came before: after a soft reset in of peer i the Loc-RIB holds, for every
   prefix, exactly the import policy's result on i's Adj-RIB-In route (nothing where the policy rejects or there is no
   route); after a soft reset out of, or a route refresh from, peer q, q holds exactly the exported selected path of
   every destination - newly rejected routes withdrawn, newly accepted ones present, changed attributes re-sent. *)
Theorem C15_soft_in_restores : forall (P : Type) (ev : P -> Z -> Z -> attrs -> option attrs) g peers Ei Ee h i c,
  conf_of peers i = Some c ->
  let s := run ev g peers Ei Ee (h ++ [ESoftIn i]) in
  forall k, r_rib s k i = bindo (r_adj s i k) (imp_route ev g (r_imp s) c k).
Proof. exact @soft_in_restores. Qed.
Print Assumptions C15_soft_in_restores.

Theorem C15_soft_out_restores : forall (P : Type) (ev : P -> Z -> Z -> attrs -> option attrs) g peers Ei Ee h q qc e,
  conf_of peers q = Some qc -> e = ESoftOut q \/ e = ERefresh q ->
  let s := run ev g peers Ei Ee (h ++ [e]) in
  forall k, r_view s q k = tgt ev g (r_exp s) qc k (best_of g peers (r_rib s) k).
Proof. exact @soft_out_restores. Qed.
Print Assumptions C15_soft_out_restores.

(* The invariants every reachable state satisfies: a peer whose policy mark is clean is consistent (Loc-RIB = import of
   Adj-RIB-In; held routes = export of the selected paths); a peer never holds a route for a destination without a
   selected path that loop prevention lets through; the Loc-RIB has no entry without an Adj-RIB-In route. *)
Theorem C15_invariants : forall (P : Type) (ev : P -> Z -> Z -> attrs -> option attrs) g peers Ei Ee h,
  Inv ev g peers (run ev g peers Ei Ee h).
Proof. exact @run_inv. Qed.
Print Assumptions C15_invariants.

(* Repeating a reset changes nothing. *)
Theorem C15_soft_in_idempotent : forall (P : Type) (ev : P -> Z -> Z -> attrs -> option attrs) g peers (s : @rstate P) i,
  let s1 := step ev g peers s (ESoftIn i) in let s2 := step ev g peers s1 (ESoftIn i) in
  (forall k j, r_rib s2 k j = r_rib s1 k j) /\ (forall q k, r_view s2 q k = r_view s1 q k) /\
  (forall j k, r_adj s2 j k = r_adj s1 j k).
Proof. exact @soft_in_idempotent. Qed.
Print Assumptions C15_soft_in_idempotent.

Theorem C15_soft_out_idempotent : forall (P : Type) (ev : P -> Z -> Z -> attrs -> option attrs) g peers (s : @rstate P) q,
  let s1 := step ev g peers s (ESoftOut q) in let s2 := step ev g peers s1 (ESoftOut q) in
  (forall k j, r_rib s2 k j = r_rib s1 k j) /\ (forall q' k, r_view s2 q' k = r_view s1 q' k).
Proof. exact @soft_out_idempotent. Qed.
Print Assumptions C15_soft_out_idempotent.

(* Nothing is lost or duplicated: a reset touches nothing but what it is for. *)
Theorem C15_soft_in_frame : forall (P : Type) (ev : P -> Z -> Z -> attrs -> option attrs) g peers (s : @rstate P) i,
  (forall j k, r_adj (step ev g peers s (ESoftIn i)) j k = r_adj s j k) /\
  (forall k j, j <> i -> r_rib (step ev g peers s (ESoftIn i)) k j = r_rib s k j).
Proof. exact @soft_in_frame. Qed.
Print Assumptions C15_soft_in_frame.

Theorem C15_soft_out_frame : forall (P : Type) (ev : P -> Z -> Z -> attrs -> option attrs) g peers (s : @rstate P) q e,
  e = ESoftOut q \/ e = ERefresh q ->
  (forall j k, r_adj (step ev g peers s e) j k = r_adj s j k) /\ (forall k j, r_rib (step ev g peers s e) k j = r_rib s k j) /\
  (forall q' k, q' <> q -> r_view (step ev g peers s e) q' k = r_view s q' k).
Proof. exact @soft_out_frame. Qed.
Print Assumptions C15_soft_out_frame.

(* ---- non-vacuity, on the concrete instance: two eBGP peers; peer 1 announces a route, peer 2 holds it; the export
   policy is replaced by "reject everything": peer 2 keeps the route until its soft reset out / route refresh, which
   withdraws it; an import policy change to "reject" followed by the soft reset in of peer 1 empties the Loc-RIB. *)
Definition xg := mkG 65000 16843009 167772414.
Definition xpeers := [(0, mkP 167772161 65001 Ebgp); (1, mkP 167772162 65002 Ebgp)].
Definition xa := mkA 0 [65001] 167772161 None None [] None [].
Definition acc : pol := (true, []).
Definition rej : pol := (false, []).
Definition xk := 167837696 * 64 + 24.
Definition xrun h := fold_left (cstep xg xpeers) h (cinit acc acc).
Example C15_nonvacuous :
  r_view (xrun [EAnn 0 xk xa]) 1 xk = Some (mkA 0 [65000; 65001] 167772414 None None [] None []) /\
  r_view (xrun [EAnn 0 xk xa; ESetExp rej]) 1 xk <> None /\
  r_view (xrun [EAnn 0 xk xa; ESetExp rej; ESoftOut 1]) 1 xk = None /\
  r_view (xrun [EAnn 0 xk xa; ESetExp rej; ERefresh 1]) 1 xk = None /\
  r_rib (xrun [EAnn 0 xk xa; ESetImp rej]) xk 0 <> None /\
  r_rib (xrun [EAnn 0 xk xa; ESetImp rej; ESoftIn 0]) xk 0 = None /\
  r_view (xrun [EAnn 0 xk xa; ESetImp rej; ESoftIn 0]) 1 xk = None /\
  r_din (xrun [EAnn 0 xk xa; ESetImp rej; ESoftIn 0]) 0 = false /\ r_din (xrun [EAnn 0 xk xa; ESetImp rej; ESoftIn 0]) 1 = true.
Proof. vm_compute. repeat split; try reflexivity; discriminate. Qed.
