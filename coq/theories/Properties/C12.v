(* C12 -- Graceful-restart stale routes live exactly as long as the RFCs allow.
   Statements only. Model: Session.Gr -- the receiving-speaker side for one peer and one family, whole seconds.
   Long-lived GR and the restarting-speaker side are NOT covered by these theorems (see DESIGN.md). *)
From Coq Require Import List ZArith Bool.
From Verif Require Import Session.Gr Session.GrProofs.
Import ListNotations.
Open Scope Z_scope.

(* a qualifying loss keeps every route, marked stale, and arms the restart timer with the time the peer announced;
   any other loss removes everything at once *)
Theorem C12_loss_split : forall k s l,
  gs_est s = true ->
  let s' := gstep k s (GLoss l) in
  if qualifying k s l
  then map fst (gs_routes s') = map fst (gs_routes s) /\ Forall (fun r => snd r = true) (gs_routes s') /\
       gs_restarting s' = true /\ gs_timer s' = Some (restart_time s)
  else gs_routes s' = [] /\ gs_restarting s' = false.
Proof. exact loss_split. Qed.
Print Assumptions C12_loss_split.

(* which losses qualify: GR negotiated, and transport failure, hold-timer expiry, or a NOTIFICATION other than Hard
   Reset when the N bit was negotiated *)
Theorem C12_qualifying_cases : forall k s l,
  qualifying k s l = true <->
  gr_negotiated k s = true /\
  (l = LTransport \/ l = LHoldExpired \/
   exists c sc, l = LNotifRecv c sc /\ nbit_negotiated k s = true /\ ~ (c = 6 /\ sc = 9)).
Proof. exact qualifying_cases. Qed.
Print Assumptions C12_qualifying_cases.

(* without re-establishment the stale routes stay untouched for restart-time - 1 seconds and are all gone exactly when
   the restart timer expires *)
Theorem C12_restart_timer_exact : forall k (n : nat) s,
  gs_est s = false -> gs_timer s = Some (Z.of_nat (S n)) ->
  (forall m, (m <= n)%nat -> gs_routes (gticks k m s) = gs_routes s /\ gs_restarting (gticks k m s) = gs_restarting s) /\
  gs_routes (gticks k (S n) s) = [] /\ gs_restarting (gticks k (S n) s) = false.
Proof. exact restart_timer_exact. Qed.
Print Assumptions C12_restart_timer_exact.

(* after re-establishment End-of-RIB removes exactly the routes still stale; a re-announced route is fresh *)
Theorem C12_eor_drops_exactly_the_stale : forall k s,
  gs_est s = true -> gs_restarting s = true ->
  let s' := gstep k s GEor in
  gs_restarting s' = false /\
  forall p st, In (p, st) (gs_routes s') <-> (In (p, st) (gs_routes s) /\ st = false).
Proof. exact eor_drops_exactly_the_stale. Qed.
Print Assumptions C12_eor_drops_exactly_the_stale.

Theorem C12_announce_is_fresh : forall k s p, gs_est s = true -> In (p, false) (gs_routes (gstep k s (GAnn p))).
Proof. exact announce_is_fresh. Qed.
Print Assumptions C12_announce_is_fresh.

Theorem C12_reestablish_without_gr : forall k s cap,
  gs_est s = false -> gs_restarting s = true ->
  (gc_local_gr k = false \/ cap = None) ->
  let s' := gstep k s (GUp cap) in
  gs_restarting s' = false /\ Forall (fun r => snd r = false) (gs_routes s').
Proof. exact reestablish_without_gr. Qed.
Print Assumptions C12_reestablish_without_gr.

(* over every history (incl. a second loss during the restart window): stale routes exist only while the peer is
   restarting; with no session and no restart in progress nothing is retained; the timer runs exactly in between *)
Theorem C12_invariants : forall k h, ginv (grun k h).
Proof. exact ginv_run. Qed.
Print Assumptions C12_invariants.

Definition ex_k := mkGC true false.
Example C12_nonvacuous :
  gs_routes (grun ex_k [GUp (Some (3, false)); GAnn 1; GAnn 2; GLoss LTransport; GTick; GTick]) = [(1, true); (2, true)] /\
  gs_routes (grun ex_k [GUp (Some (3, false)); GAnn 1; GAnn 2; GLoss LTransport; GTick; GTick; GTick]) = [] /\
  gs_routes (grun ex_k [GUp (Some (3, false)); GAnn 1; GAnn 2; GLoss LTransport; GTick; GUp (Some (3, false)); GAnn 2; GEor]) = [(2, false)] /\
  gs_routes (grun ex_k [GUp (Some (3, false)); GAnn 1; GLoss (LNotifRecv 6 2)]) = [].
Proof. vm_compute. auto. Qed.
