(* C12 -- Graceful-restart stale routes live exactly as long as the RFCs allow.
   Statements only. Model: Session.Gr -- the receiving-speaker side for one peer with the families IPv4 unicast (4) and
   IPv6 unicast (6), whole seconds.  Long-lived GR and the restarting-speaker side are NOT covered (see DESIGN.md). *)
From Coq Require Import List ZArith Bool.
From Verif Require Import Session.Gr Session.GrProofs.
Import ListNotations.
Open Scope Z_scope.

(* a qualifying loss keeps exactly the routes of the families the peer listed in its GR capability, marked stale, and
   arms the restart timer with the time the peer announced; all its other routes, and everything on any other loss,
   are removed at once *)
Theorem C12_loss_split : forall k s l,
  gs_est s = true ->
  let s' := gstep k s (GLoss l) in
  if qualifying k s l
  then (forall key st, In (key, st) (gs_routes s') <->
          (st = true /\ fam_gr k (gs_cap s) (fst key) = true /\ exists st0, In (key, st0) (gs_routes s))) /\
       gs_restarting s' = true /\ gs_timer s' = Some (restart_time s)
  else gs_routes s' = [] /\ gs_restarting s' = false.
Proof. exact loss_split. Qed.
Print Assumptions C12_loss_split.

Theorem C12_qualifying_cases : forall k s l,
  qualifying k s l = true <->
  gr_negotiated k s = true /\
  (l = LTransport \/ l = LHoldExpired \/
   exists c sc, l = LNotifRecv c sc /\ nbit_negotiated k s = true /\ ~ (c = 6 /\ sc = 9)).
Proof. exact qualifying_cases. Qed.
Print Assumptions C12_qualifying_cases.

Theorem C12_restart_timer_exact : forall k (n : nat) s,
  gs_est s = false -> gs_timer s = Some (Z.of_nat (S n)) ->
  (forall m, (m <= n)%nat -> gs_routes (gticks k m s) = gs_routes s /\ gs_restarting (gticks k m s) = gs_restarting s) /\
  gs_routes (gticks k (S n) s) = [] /\ gs_restarting (gticks k (S n) s) = false.
Proof. exact restart_timer_exact. Qed.
Print Assumptions C12_restart_timer_exact.

(* after re-establishment: when End-of-RIB has arrived for every GR family of the new session, exactly the routes
   still stale are removed, in every family; before that nothing is removed *)
Theorem C12_eor_completes : forall k s f,
  gs_est s = true -> gs_restarting s = true ->
  all_eor k (gs_cap s) (gs_eor4 s || (f =? 4)) (gs_eor6 s || (f =? 6)) = true ->
  let s' := gstep k s (GEor f) in
  gs_restarting s' = false /\
  forall key st, In (key, st) (gs_routes s') <-> (In (key, st) (gs_routes s) /\ st = false).
Proof. exact eor_completes. Qed.
Print Assumptions C12_eor_completes.

Theorem C12_eor_incomplete_keeps : forall k s f,
  gs_est s = true -> gs_restarting s = true ->
  all_eor k (gs_cap s) (gs_eor4 s || (f =? 4)) (gs_eor6 s || (f =? 6)) = false ->
  let s' := gstep k s (GEor f) in gs_restarting s' = true /\ gs_routes s' = gs_routes s.
Proof. exact eor_incomplete_keeps. Qed.
Print Assumptions C12_eor_incomplete_keeps.

Theorem C12_announce_is_fresh : forall k s f p, gs_est s = true -> In ((f, p), false) (gs_routes (gstep k s (GAnn f p))).
Proof. exact announce_is_fresh. Qed.
Print Assumptions C12_announce_is_fresh.

Theorem C12_reestablish_without_gr : forall k s cap,
  gs_est s = false -> gs_restarting s = true -> all_eor k cap false false = true ->
  let s' := gstep k s (GUp cap) in
  gs_restarting s' = false /\ Forall (fun r => snd r = false) (gs_routes s').
Proof. exact reestablish_without_gr. Qed.
Print Assumptions C12_reestablish_without_gr.

Theorem C12_invariants : forall k h, ginv (grun k h).
Proof. exact ginv_run. Qed.
Print Assumptions C12_invariants.

Definition ex_k := mkGC true false.
Definition c46 := Some (mkCap 3 false true true).
Definition c4 := Some (mkCap 3 false true false).
Example C12_nonvacuous :
  gs_routes (grun ex_k [GUp c46; GAnn 4 1; GAnn 6 2; GLoss LTransport; GTick; GTick]) = [((4, 1), true); ((6, 2), true)] /\
  gs_routes (grun ex_k [GUp c46; GAnn 4 1; GAnn 6 2; GLoss LTransport; GTick; GTick; GTick]) = [] /\
  gs_routes (grun ex_k [GUp c4; GAnn 4 1; GAnn 6 2; GLoss LTransport]) = [((4, 1), true)] /\
  gs_routes (grun ex_k [GUp c46; GAnn 4 1; GAnn 6 2; GLoss LTransport; GTick; GUp c4; GAnn 4 1; GEor 4]) = [((4, 1), false)] /\
  gs_routes (grun ex_k [GUp c46; GAnn 4 1; GLoss (LNotifRecv 6 2)]) = [].
Proof. vm_compute. auto 10. Qed.
