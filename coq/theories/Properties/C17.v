(* C17 -- VRF import/export and RT Constraint distribute exactly the matching routes.
   Statements only.  Model: Vrf.Model (one route per VPN key at a time; what a peer holds is a set of keys) and Vrf.Index
   (the route-target index of the VPN table with several sources per destination, no ADD-PATH). *)
From Coq Require Import List ZArith Bool.
From Verif Require Import Vrf.Model Vrf.Proofs Vrf.Index Vrf.IndexProgram Generated.C17Idx Vrf.IndexProgramProofs.
Import ListNotations.
Open Scope Z_scope.

(* a VPN route is visible in a VRF iff one of its targets is in the VRF's import set *)
Theorem C17_vrf_view_exact : forall v rs r,
  In r (vrf_view v rs) <-> In r rs /\ exists t, In t (vr_rts r) /\ In t (v_imp v).
Proof. exact vrf_view_exact. Qed.
Print Assumptions C17_vrf_view_exact.

(* a route originated in a VRF is exported with the VRF's RD, label and export targets *)
Theorem C17_export_carries_vrf_identity : forall v prefix,
  vr_rd (to_global v prefix) = v_rd v /\ vr_label (to_global v prefix) = v_label v /\
  vr_rts (to_global v prefix) = v_exp v /\ vr_prefix (to_global v prefix) = prefix /\ vr_src (to_global v prefix) = 0.
Proof. exact export_carries_vrf_identity. Qed.
Print Assumptions C17_export_carries_vrf_identity.

Theorem C17_vrf_leak : forall v w prefix,
  can_import w (to_global v prefix) = true <-> exists t, In t (v_exp v) /\ In t (v_imp w).
Proof. exact vrf_leak. Qed.
Print Assumptions C17_vrf_leak.

(* "has an accepted membership for one of the route's targets (or the default membership)" *)
Theorem C17_interested_spec : forall m r,
  interested m r = true <->
  (exists a, In (a, None) m) \/ (exists t a, In t (vr_rts r) /\ In (a, Some t) m).
Proof. exact interested_spec. Qed.
Print Assumptions C17_interested_spec.

(* after EVERY history of route announcements / withdrawals and membership announcements / withdrawals (duplicates,
   several origin ASes, the default membership), every RTC peer holds exactly the routes of the VPN table that carry a
   target it currently has a membership for and that it did not send itself *)
Theorem C17_rtc_exact : forall peers h p k, In p peers ->
  t_view (run peers h) p k = should_hold (run peers h) p k.
Proof. intros peers h p k H. exact (rtc_exact peers h p k H). Qed.
Print Assumptions C17_rtc_exact.

(* a membership event touches only the peer it came from *)
Theorem C17_membership_frame : forall peers s q m e, e = MAdd q m \/ e = MDel q m ->
  (forall k, t_route (step peers s e) k = t_route s k) /\
  (forall p k, p <> q -> t_view (step peers s e) p k = t_view s p k) /\
  (forall p, p <> q -> t_mem (step peers s e) p = t_mem s p).
Proof. exact membership_frame. Qed.
Print Assumptions C17_membership_frame.

(* the route-target index: after ANY history of table updates (any number of sources per destination, any selected path),
   the index holds per target exactly the selected paths that carry it, each once; so the candidates that
   processRTCMembership takes from GetPathsByRT are "the selected routes carrying the target" of Vrf.Model *)
Theorem C17_route_target_index_exact : forall h, ih_ok iinit h -> IInv (irun iinit h).
Proof. exact index_exact. Qed.
Print Assumptions C17_route_target_index_exact.

Theorem C17_index_candidates_are_the_selected_routes : forall h t k r asn, ih_ok iinit h ->
  (In (k, r) (paths_by_rt (irun iinit h) t) <-> best (i_cands (irun iinit h)) k = Some r /\ carries (asn, Some t) r = true).
Proof. exact paths_by_rt_are_the_selected_routes_carrying. Qed.
Print Assumptions C17_index_candidates_are_the_selected_routes.

(* the statement structure of updateVPNIdx, REGENERATED from the source on every run (Generated/C17Idx.v), executed for
   an update of a table whose paths carry no path identifier, is exactly the index step of the model *)
Theorem C17_generated_index_update_is_the_model_step : forall s k nl same withdraw oldp newp,
  run_program vpnidx_program (plain_flags withdraw same (is_some (best (i_cands s) k)) (is_some (hd_error nl)))
              (mkVals oldp newp (ent k (best (i_cands s) k)) (ent k (hd_error nl))) (i_idx s)
  = Some (i_idx (istep s (IUpd k nl same))).
Proof. exact generated_update_is_istep. Qed.
Print Assumptions C17_generated_index_update_is_the_model_step.

(* non-vacuity, and the variant "a withdrawal only unregisters" fails the invariant (two sources, the selected one withdrawn) *)
Example C17_index_nonvacuous :
  let a := mkVR 1 1 100 1 [7] in let d := mkVR 1 1 100 4 [7] in
  let s1 := irun iinit [IUpd 5 [a] false; IUpd 5 [a; d] true] in
  IInv s1 /\ ~ IInv (istep_withdraw_only s1 5 [d]).
Proof. exact withdraw_only_variant_refuted. Qed.

(* non-vacuity: a route with targets 1 and 2; peer 2 is a member of both; it keeps the route when one membership goes,
   loses it when both are gone; the default membership alone is enough *)
Definition xr := mkVR 1 1 100 1 [1; 2].
Example C17_nonvacuous :
  t_view (run [2; 3] [RAnn 7 xr; MAdd 2 (65002, Some 1); MAdd 2 (65002, Some 2)]) 2 7 = true /\
  t_view (run [2; 3] [RAnn 7 xr; MAdd 2 (65002, Some 1); MAdd 2 (65002, Some 2); MDel 2 (65002, Some 1)]) 2 7 = true /\
  t_view (run [2; 3] [RAnn 7 xr; MAdd 2 (65002, Some 1); MAdd 2 (65002, Some 2); MDel 2 (65002, Some 1); MDel 2 (65002, Some 2)]) 2 7 = false /\
  t_view (run [2; 3] [MAdd 3 (0, None); RAnn 7 xr]) 3 7 = true /\
  t_view (run [2; 3] [MAdd 3 (0, None); RAnn 7 xr]) 2 7 = false /\
  t_view (run [1; 2] [MAdd 1 (0, None); RAnn 7 xr]) 1 7 = false /\
  vrf_view (mkVrf 9 0 [2; 5] [6]) [xr; mkVR 1 2 100 1 [3]] = [xr].
Proof. vm_compute. repeat split; reflexivity. Qed.
