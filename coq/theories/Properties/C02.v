(* C02 -- RIBs hold exactly the latest un-withdrawn route per source.
   Statements only. Model: Speaker.Model; abstract specification: Speaker.RibSpec.spec_run, the simplest possible
   function of the history (per peer: is a session up, and the latest un-withdrawn route per destination received
   on it; per destination the locally injected route).  wf_config: peer keys and peer addresses are distinct. *)
From Coq Require Import List ZArith Bool.
From Verif Require Import Decision.Model Speaker.Model Speaker.Lemmas Speaker.RibLemmas Speaker.RibProofs Speaker.RibSpec.
Import ListNotations.
Open Scope Z_scope.

(* Adj-RIB-In = latest un-withdrawn route per destination of the current session, with the loop-check verdict;
   empty when no session is up; no entry for a removed peer *)
Theorem C02_adj_rib_in_is_latest : forall g peers h,
  wf_config peers ->
  let st := run g peers h in
  let sp := spec_run peers h in
  forall i, match aget i (s_peers st) with
            | Some p => sp_known sp i = true /\ p_up p = sp_up sp i /\
                        forall pfx, aget pfx (p_adjin p) = adj_entry g (p_conf p) (sp_adj sp i pfx)
            | None => sp_known sp i = false
            end.
Proof. exact adj_rib_in_is_latest. Qed.
Print Assumptions C02_adj_rib_in_is_latest.

(* Loc-RIB, per destination: one path per source; the local source contributes exactly the injected route; a
   configured peer contributes exactly its accepted Adj-RIB-In route while its session is up and nothing
   otherwise; and every path present is of one of those kinds (nothing from an ended session or a removed peer) *)
Theorem C02_loc_rib_exact : forall g peers h,
  wf_config peers ->
  let st := run g peers h in
  let sp := spec_run peers h in
  forall pfx,
    NoDup (map src_addr (rib_get st pfx)) /\
    find_addr None (rib_get st pfx) = sp_loc sp pfx /\
    (forall i p, aget i (s_peers st) = Some p ->
       find_addr (Some (paddr p)) (rib_get st pfx) =
         if sp_up sp i then accepted (adj_entry g (p_conf p) (sp_adj sp i pfx)) else None) /\
    (forall y, In y (rib_get st pfx) ->
       match rp_src y with
       | None => True
       | Some c => exists i p, aget i (s_peers st) = Some p /\ p_conf p = c /\ sp_known sp i = true /\ sp_up sp i = true /\
                               sp_adj sp i pfx = Some (rp_attrs y) /\ rejected g c (rp_attrs y) = false
       end).
Proof. exact loc_rib_exact. Qed.
Print Assumptions C02_loc_rib_exact.

(* Calculate on one destination: the new list is a permutation of the old one minus the source's previous path,
   plus the new path (announcement), or minus it (withdrawal) *)
Theorem C02_calculate : forall s g l w x, NoDup (map src_addr l) ->
  find_addr s (dest_update g l w x) =
    (if opt_eqb s (src_addr x) then (if w then None else Some (rp_attrs x)) else find_addr s l) /\
  NoDup (map src_addr (dest_update g l w x)).
Proof. intros s g l w x H. split; [exact (du_find s g l w x H)|exact (du_nodup g l w x H)]. Qed.
Print Assumptions C02_calculate.

Definition ex_g := mkG 65000 16843009 167772414.
Definition ex_peers := [(0, mkP 167772161 65001 Ebgp); (1, mkP 167772162 65000 Ibgp)].
Definition ex_a1 := mkA 0 [65001; 65020] 167772161 None None [] None [].
Definition ex_loop := mkA 0 [65001; 65000] 167772161 None None [] None [].
Definition ex_h := [EUp 0; EUp 1; EAnn 0 7 ex_a1; EAnn 0 8 ex_a1; EAnn 0 8 ex_loop; EAnn 1 7 (mkA 0 [] 167772162 None (Some 200) [] None [])].
Example C02_nonvacuous :
  wf_config ex_peers /\
  let st := run ex_g ex_peers ex_h in
  (map (fun kl => (fst kl, map src_addr (snd kl))) (s_rib st) = [(7, [Some 167772162; Some 167772161]); (8, [])]) /\
  (map (fun ip => map (fun e => (fst e, snd (snd e))) (p_adjin (snd ip))) (s_peers st) = [[(7, false); (8, true)]; [(7, false)]]).
Proof.
  split.
  - split; repeat constructor; cbn; intuition congruence.
  - vm_compute. auto.
Qed.
