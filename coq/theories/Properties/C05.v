(* C05 -- No byte string can crash, hang or over-read the BGP message parser.
   Statements only, about Wire.Model: the decoders are total functions on every byte list (there is nothing to prove
   for "terminates with a value or an error" in Gallina: every Fixpoint is structurally recursive on explicit fuel
   bounded by the input length); what is stated is the no-over-read contract of the attribute and message framing.
   Crashes, hangs and buffer modification of the Go code are NOT decided by these theorems: they are decided by the
   search of checks/c05.py (see DESIGN.md). *)
From Coq Require Import List ZArith Bool.
From Verif Require Import Common.Res Common.Bytes Wire.Model Wire.Proofs.
Import ListNotations.
Open Scope Z_scope.

(* a decoded attribute accounts for a non-empty prefix of the input and leaves the rest untouched *)
Theorem C05_attribute_never_over_reads : forall d a rest,
  dec_attr d = Some (a, rest) -> exists used, d = used ++ rest /\ 3 <= blen used.
Proof. exact dec_attr_consumes. Qed.
Print Assumptions C05_attribute_never_over_reads.

(* taking n octets succeeds only when they are there, and splits the input exactly *)
Theorem C05_take_is_exact : forall n l a b, take n l = Some (a, b) -> blen a = n /\ l = a ++ b.
Proof. exact take_length. Qed.
Print Assumptions C05_take_is_exact.

(* octets beyond the declared message length are never looked at *)
Theorem C05_trailing_octets_ignored : forall ap b extra m,
  dec_msg ap b = Some m -> dec_msg ap (b ++ extra) = Some m.
Proof.
  intros ap b extra m. unfold dec_msg.
  destruct (take 16 b) as [[mk d1]|] eqn:E1; [|discriminate].
  apply take_length in E1. destruct E1 as [L1 ->]. rewrite <- app_assoc. rewrite (take_app_n 16 mk) by (symmetry; exact L1).
  destruct (negb (all_ones mk)); [discriminate|].
  destruct (take 2 d1) as [[l d2]|] eqn:E2; [|discriminate].
  apply take_length in E2. destruct E2 as [L2 ->]. rewrite <- app_assoc. rewrite (take_app_n 2 l) by (symmetry; exact L2).
  destruct d2 as [|t rest]; [discriminate|]. cbn [app].
  destruct (de16 l <? 19); [discriminate|].
  destruct (take (de16 l - 19) rest) as [[body r2]|] eqn:E3; [|discriminate].
  apply take_length in E3. destruct E3 as [L3 ->]. rewrite <- app_assoc. rewrite (take_app_n (de16 l - 19) body) by (symmetry; exact L3).
  auto.
Qed.
Print Assumptions C05_trailing_octets_ignored.
