(* C01 -- Each peer has been told exactly the current export of the Loc-RIB.
   Statements only. Model: Speaker.Model (one event at a time; IPv4 unicast, no ADD-PATH, no policy; eBGP, iBGP and
   route-reflector-client peers). The theorems hold for EVERY configuration and EVERY history of session
   establishments and losses, peer removals, announcements, withdrawals, API injections/removals and clock steps.
   p_view is the accumulation of the UPDATEs written to the peer's session; rib_get is the Loc-RIB list, best first;
   target = export of the best path when filterpath lets it through, nothing otherwise. *)
From Coq Require Import List ZArith Bool.
From Verif Require Import Decision.Model Speaker.Model Speaker.Lemmas Speaker.ViewProofs.
From Verif Require Reset.Model Reset.Proofs Speaker.Atomic Generated.C01Atomic.
From Coq Require Import String.
Open Scope string_scope.
Import ListNotations.
Open Scope Z_scope.

Theorem C01_view_is_export_of_best : forall g peers h,
  let st := run g peers h in
  forall i p, In (i, p) (s_peers st) -> p_up p = true ->
    forall pfx, aget pfx (p_view p) = target g (p_conf p) (hd_error (rib_get st pfx)).
Proof. exact view_is_export_of_best. Qed.
Print Assumptions C01_view_is_export_of_best.

(* no route that has left the Loc-RIB (or lost the best place) stays advertised *)
Theorem C01_nothing_stale : forall g peers h i p pfx a,
  let st := run g peers h in
  In (i, p) (s_peers st) -> p_up p = true -> aget pfx (p_view p) = Some a ->
  exists b, hd_error (rib_get st pfx) = Some b /\ filter0 g (p_conf p) b = true /\ a = export g (p_conf p) b.
Proof. exact nothing_stale. Qed.
Print Assumptions C01_nothing_stale.

(* no eligible route is missing *)
Theorem C01_nothing_missing : forall g peers h i p pfx b,
  let st := run g peers h in
  In (i, p) (s_peers st) -> p_up p = true ->
  hd_error (rib_get st pfx) = Some b -> filter0 g (p_conf p) b = true ->
  aget pfx (p_view p) = Some (export g (p_conf p) b).
Proof. exact nothing_missing. Qed.
Print Assumptions C01_nothing_missing.

(* the one-step mechanism behind it: whatever (best, old) pair GetChanges yields, after the fan-out a peer that
   held the target of the old best holds the target of the new one, and nothing else changed *)
Theorem C01_fanout_step : forall g pfx oldl newl p,
  (p_up p = true -> aget pfx (p_view p) = target g (p_conf p) (hd_error oldl)) ->
  let p' := fan1 g pfx (changes oldl newl) p in
  p_conf p' = p_conf p /\ p_up p' = p_up p /\ p_adjin p' = p_adjin p /\
  (p_up p = true -> aget pfx (p_view p') = target g (p_conf p) (hd_error newl)) /\
  (forall k, k <> pfx -> aget k (p_view p') = aget k (p_view p)).
Proof. exact fan1_spec. Qed.
Print Assumptions C01_fanout_step.

(* non-vacuity: a concrete history (two eBGP peers, one iBGP peer; announce, better announce, withdraw, flap)
   in which peers are up and hold routes *)
Definition ex_g := mkG 65000 16843009 167772414.
Definition ex_peers := [(0, mkP 167772161 65001 Ebgp); (1, mkP 167772162 65002 Ebgp); (2, mkP 167772163 65000 Ibgp)].
Definition ex_a1 := mkA 0 [65001; 65020] 167772161 None None [] None [].
Definition ex_a2 := mkA 0 [65002] 167772162 None None [] None [].
Definition ex_h := [EUp 0; EUp 1; EUp 2; EAnn 0 7 ex_a1; EAnn 1 7 ex_a2; EDown 1; EUp 1; EApiAdd 8 (mkA 0 [] 0 None None [] None [])].
Example C01_nonvacuous :
  let st := run ex_g ex_peers ex_h in
  map (fun ip => (fst ip, p_up (snd ip), map fst (p_view (snd ip)))) (s_peers st) =
    [(0, true, [8]); (1, true, [7; 8]); (2, true, [7; 8])].
Proof. vm_compute. reflexivity. Qed.

(* ---- with an export (and import) policy in force: Reset.Model, policy evaluation a parameter.  After every history
   of announcements, withdrawals and clock steps under fixed policies, each (established) peer holds per destination
   exactly the selected path that survives loop prevention AND the export policy, carrying the exported attributes;
   nothing otherwise.  (Sessions stay established in that model; ADD-PATH and route-server clients are outside it.) *)
Theorem C01_view_exact_under_policy :
  forall (P : Type) (ev : P -> Z -> Z -> attrs -> option attrs) g peers Ei Ee h q qc,
  Forall (fun e => @Reset.Model.is_route_event P e = true) h -> Reset.Model.conf_of peers q = Some qc ->
  let s := Reset.Model.run ev g peers Ei Ee h in
  forall k, Reset.Model.r_view s q k = Reset.Model.tgt ev g Ee qc k (Reset.Model.best_of g peers (Reset.Model.r_rib s) k).
Proof. exact @Reset.Proofs.view_exact_under_policy. Qed.
Print Assumptions C01_view_exact_under_policy.

(* ---- the atomicity the model's "one event at a time" rests on, read from the source on every run
   (Generated/C01Atomic.v: the lock operations and calls of BgpServer.propagateUpdate in order): the Loc-RIB update
   (rib.Update) and the fan-out (propagateUpdateToNeighbors) sit in one critical section of the destination's
   propagation bucket, and the fan-out is never called outside such a section *)
Theorem C01_update_and_fanout_in_one_critical_section :
  Atomic.in_one_section "bucket" "Update" "propagateUpdateToNeighbors" C01Atomic.propagate_update_seq = true.
Proof. vm_compute. reflexivity. Qed.
Print Assumptions C01_update_and_fanout_in_one_critical_section.
