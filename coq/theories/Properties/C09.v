(* C09 -- Per-peer-type export rewriting and loop prevention.
   Statements only. Model: Speaker.Model.export (UpdatePathAttrs + postFilterpath), filter0 / filterpath
   (filterpath, filterPathFromSourcePeer), rejected (handleUpdate).  AS_PATH is one AS_SEQUENCE; no confederation,
   no remove-private-as, no route server (those options are exercised by the correspondence harness only). *)
From Coq Require Import List ZArith Bool.
From Verif Require Import Decision.Model Speaker.Model Speaker.Lemmas Speaker.RibLemmas Speaker.RibProofs Speaker.RibSpec Speaker.ExportProofs.
From Verif Require Rewrite.Model Rewrite.Proofs Rewrite.OwnAs Rewrite.OwnAsProofs.
Import ListNotations.
Open Scope Z_scope.

Theorem C09_export_ebgp : forall g q x,
  pc_kind q = Ebgp ->
  let e := export g q x in
  a_path e = g_as g :: a_path (rp_attrs x) /\
  count (g_as g) (a_path e) = S (count (g_as g) (a_path (rp_attrs x))) /\
  (is_local x = false -> a_nh e = g_addr g /\ a_med e = None) /\
  (is_local x = true -> a_med e = a_med (rp_attrs x) /\
                        a_nh e = if a_nh (rp_attrs x) =? 0 then g_addr g else a_nh (rp_attrs x)) /\
  a_lp e = None /\ a_orig e = None /\ a_cl e = [] /\
  a_origin e = a_origin (rp_attrs x) /\ a_comms e = a_comms (rp_attrs x).
Proof. exact export_ebgp. Qed.
Print Assumptions C09_export_ebgp.

Theorem C09_export_ibgp : forall g q x,
  pc_kind q <> Ebgp ->
  let e := export g q x in
  a_path e = a_path (rp_attrs x) /\
  (is_local x = false -> a_nh e = a_nh (rp_attrs x)) /\
  a_lp e = Some (match a_lp (rp_attrs x) with Some v => v | None => 100 end) /\
  a_med e = a_med (rp_attrs x) /\ a_origin e = a_origin (rp_attrs x) /\ a_comms e = a_comms (rp_attrs x).
Proof. exact export_ibgp. Qed.
Print Assumptions C09_export_ibgp.

Theorem C09_export_reflection : forall g q x,
  let e := export g q x in
  (pc_kind q = Ibgp -> a_orig e = None /\ a_cl e = []) /\
  (pc_kind q = RRc ->
     a_cl e = g_id g :: a_cl (rp_attrs x) /\
     a_orig e = Some (match a_orig (rp_attrs x) with
                      | Some o => o
                      | None => match rp_src x with Some s => pc_addr s | None => g_id g end
                      end)).
Proof. exact export_reflection. Qed.
Print Assumptions C09_export_reflection.

Theorem C09_never_back_to_source : forall g q x, filter0 g q x = true -> src_addr x <> Some (pc_addr q).
Proof. exact filter_never_back. Qed.
Print Assumptions C09_never_back_to_source.

Theorem C09_no_as_loop_towards_peer : forall g q x, filter0 g q x = true -> zmem (pc_as q) (a_path (rp_attrs x)) = false.
Proof. exact filter_no_as_loop. Qed.
Print Assumptions C09_no_as_loop_towards_peer.

Theorem C09_ibgp_split_horizon : forall g q x s,
  filter0 g q x = true -> rp_src x = Some s ->
  is_ibgp_peer g q = true -> pc_kind q = Ibgp -> pc_as s = pc_as q -> pc_kind s = RRc.
Proof. exact filter_ibgp_split_horizon. Qed.
Print Assumptions C09_ibgp_split_horizon.

Theorem C09_cluster_loop_not_reflected : forall g q x s,
  filter0 g q x = true -> rp_src x = Some s -> is_ibgp_peer g q = true -> pc_kind q = RRc ->
  zmem (g_id g) (a_cl (rp_attrs x)) = false.
Proof. exact filter_cluster_loop. Qed.
Print Assumptions C09_cluster_loop_not_reflected.

(* over every history: whatever an established peer holds is the export of a Loc-RIB path that passed the filters *)
Theorem C09_held_routes_are_exports : forall g peers h i p pfx a,
  let st := run g peers h in
  In (i, p) (s_peers st) -> p_up p = true -> aget pfx (p_view p) = Some a ->
  exists b, In b (rib_get st pfx) /\ filter0 g (p_conf p) b = true /\ a = export g (p_conf p) b.
Proof. exact held_routes_are_exports. Qed.
Print Assumptions C09_held_routes_are_exports.

(* inbound: a received route with the local AS in its AS_PATH, the local router-id as ORIGINATOR_ID or the local
   cluster-id in its CLUSTER_LIST is never in the Loc-RIB (it is not used), after any history *)
Theorem C09_looped_routes_not_used : forall g peers h,
  wf_config peers ->
  let st := run g peers h in
  forall pfx y c, In y (rib_get st pfx) -> rp_src y = Some c -> rejected g c (rp_attrs y) = false.
Proof.
  intros g peers h W st pfx y c Hin Hs.
  destruct (loc_rib_exact g peers h W pfx) as (_ & _ & _ & H). specialize (H y Hin). rewrite Hs in H.
  destruct H as (i & p & _ & _ & _ & _ & _ & Hr). exact Hr.
Qed.
Print Assumptions C09_looped_routes_not_used.

Theorem C09_rejected_means : forall g q a,
  rejected g q a = true <->
  zmem (g_as g) (a_path a) = true \/
  (is_ibgp_peer g q = true /\ (a_orig a = Some (g_id g) \/ zmem (g_id g) (a_cl a) = true)).
Proof.
  intros g q a. unfold rejected. rewrite orb_true_iff, andb_true_iff, orb_true_iff, opt_eqb_eq. tauto.
Qed.
Print Assumptions C09_rejected_means.

(* ---- the same rewriting over full AS_PATH structure (SET / SEQUENCE / CONFED segments, absent attribute,
   remove-private-as, confederation members, route-server clients, unknown attributes): model Rewrite.Model of
   table.UpdatePathAttrs with PrependAsn, RemovePrivateAS, removeConfedAs *)
Module X.
Import Rewrite.Model Rewrite.Proofs.

Theorem C09_ebgp_as_path : forall g q src a,
  xp_rs q = false -> xp_ebgp q = true -> existsb (Z.eqb (xp_as q)) (xg_members g) = false ->
  exists p, x_path (update_path_attrs g q src a) = Some p /\
    flat p = xp_localas q :: flat (remove_confed (cleaned q a)) /\
    (exists l r, p = (2, xp_localas q :: l) :: r) /\
    Forall (fun s => fst s = 1 \/ fst s = 2) p.
Proof. exact ebgp_as_path. Qed.
Print Assumptions C09_ebgp_as_path.

Theorem C09_confed_as_path : forall g q src a,
  xp_rs q = false -> xp_ebgp q = true -> existsb (Z.eqb (xp_as q)) (xg_members g) = true ->
  exists p, x_path (update_path_attrs g q src a) = Some p /\
    flat p = xp_localas q :: flat (cleaned q a) /\
    (exists l r, p = (3, xp_localas q :: l) :: r).
Proof. exact confed_as_path. Qed.
Print Assumptions C09_confed_as_path.

Theorem C09_ebgp_other_attrs : forall g q src a,
  xp_rs q = false -> xp_ebgp q = true ->
  let r := update_path_attrs g q src a in
  (xs_local src = false -> x_nh r = xp_localaddr q /\ x_med r = None) /\
  (xs_local src = true -> x_med r = x_med a /\ x_nh r = if x_nh a =? 0 then xp_localaddr q else x_nh a) /\
  x_orig r = None /\ x_cl r = None /\ x_origin r = x_origin a.
Proof. exact ebgp_other_attrs. Qed.
Print Assumptions C09_ebgp_other_attrs.

Theorem C09_ibgp_attrs : forall g q src a,
  xp_rs q = false -> xp_ebgp q = false ->
  let r := update_path_attrs g q src a in
  x_path r = Some (opt_segs (x_path a)) /\
  (xs_local src = false -> x_nh r = x_nh a) /\
  x_lp r = Some (match x_lp a with Some v => v | None => 100 end) /\
  x_med r = x_med a /\ x_origin r = x_origin a /\
  (xp_rrc q = false -> x_orig r = None /\ x_cl r = None) /\
  (xp_rrc q = true ->
     x_orig r = Some (match x_orig a with Some o => o | None => if xs_local src then xg_id g else xs_id src end) /\
     x_cl r = Some (xp_cluster q :: match x_cl a with Some l => l | None => [] end)).
Proof. exact ibgp_attrs. Qed.
Print Assumptions C09_ibgp_attrs.

Theorem C09_route_server_client_unchanged : forall g q src a, xp_rs q = true -> update_path_attrs g q src a = a.
Proof. exact route_server_client_unchanged. Qed.
Print Assumptions C09_route_server_client_unchanged.

Theorem C09_unknown_non_transitive_removed : forall g q src a,
  xp_rs q = false ->
  forall u, In u (x_unk (update_path_attrs g q src a)) <-> In u (x_unk a) /\ transitive (snd u) = true.
Proof. exact unknown_non_transitive_removed. Qed.
Print Assumptions C09_unknown_non_transitive_removed.

Theorem C09_remove_private_all : forall q a, xp_rmpriv q = 1 ->
  (forall x, In x (flat (cleaned q a)) -> is_private x = false) /\ Forall (fun s => snd s <> []) (cleaned q a) \/ x_path a = None.
Proof. exact remove_private_all. Qed.
Print Assumptions C09_remove_private_all.

Theorem C09_prepend_keeps_segments_wellformed : forall a c p, Forall seg_ok (opt_segs p) -> Forall seg_ok (prepend a c p).
Proof. exact prepend_seg_ok. Qed.
Print Assumptions C09_prepend_keeps_segments_wellformed.
(* replace-peer-as: in the route handed on to the rest of the export the peer's AS does not occur any more (it became the
   local AS), the segments keep their types and lengths, and every other AS number was there before *)
Theorem C09_replace_peer_as : forall local peer p, local <> peer ->
  (forall s, In s (opt_segs (replace_as local peer p)) -> ~ In peer (snd s)) /\
  map (fun s : seg => (fst s, length (snd s))) (opt_segs (replace_as local peer p)) = map (fun s : seg => (fst s, length (snd s))) (opt_segs p) /\
  (forall s a, In s (opt_segs (replace_as local peer p)) -> In a (snd s) -> a <> local -> exists s0, In s0 (opt_segs p) /\ In a (snd s0)).
Proof.
  intros local peer p H. split; [exact (replace_as_no_peer local peer p H)|]. split; [exact (replace_as_shape local peer p)|].
  intros s a. exact (replace_as_elsewhere local peer p s a).
Qed.
Print Assumptions C09_replace_peer_as.
End X.

(* ---- the receive-side own-AS check with allow-own-as (pkg/server/fsm.go hasOwnASLoop; model Rewrite.OwnAs, tied to the
   real function through the hook VerifHasOwnASLoop on every run): the verdict is decided by the number of occurrences of
   the local AS (or, in a confederation, of its identifier) in the WHOLE AS_PATH, whatever the division into segments
   and whatever the segment types *)
Theorem C09_allow_own_as_counts_the_whole_path : forall own limit confed ce p, 0 <= limit ->
  Rewrite.OwnAs.has_own_as_loop own limit p confed ce = (limit <? Rewrite.OwnAs.occ own confed ce (Rewrite.OwnAs.members p)).
Proof. exact Rewrite.OwnAsProofs.own_as_loop_counts_the_whole_path. Qed.
Print Assumptions C09_allow_own_as_counts_the_whole_path.

Theorem C09_allow_own_as_independent_of_segmentation : forall own limit confed ce p q, 0 <= limit ->
  Rewrite.OwnAs.members p = Rewrite.OwnAs.members q ->
  Rewrite.OwnAs.has_own_as_loop own limit p confed ce = Rewrite.OwnAs.has_own_as_loop own limit q confed ce.
Proof. exact Rewrite.OwnAsProofs.own_as_loop_independent_of_segmentation. Qed.
Print Assumptions C09_allow_own_as_independent_of_segmentation.

Theorem C09_own_as_anywhere_is_a_loop_without_allowance : forall own confed ce p,
  Rewrite.OwnAs.has_own_as_loop own 0 p confed ce = true <->
  exists a, In a (Rewrite.OwnAs.members p) /\ Rewrite.OwnAs.is_own own confed ce a = true.
Proof. exact Rewrite.OwnAsProofs.own_as_loop_limit_zero. Qed.
Print Assumptions C09_own_as_anywhere_is_a_loop_without_allowance.

Theorem C09_accepted_route_within_allowance : forall own limit confed ce p, 0 <= limit ->
  Rewrite.OwnAs.has_own_as_loop own limit p confed ce = false ->
  Rewrite.OwnAs.occ own confed ce (Rewrite.OwnAs.members p) <= limit.
Proof. exact Rewrite.OwnAsProofs.own_as_accepted_within_allowance. Qed.
Print Assumptions C09_accepted_route_within_allowance.

Example C09_allow_own_as_nonvacuous :
  Rewrite.OwnAs.has_own_as_loop 65000 1 [(2, [65001; 65000]); (1, [65002; 65000])] 0 false = true /\
  Rewrite.OwnAs.has_own_as_loop 65000 2 [(2, [65001; 65000]); (1, [65002; 65000])] 0 false = false /\
  Rewrite.OwnAs.has_own_as_loop 65000 1 [(2, [65001; 65000]); (3, [65100])] 65100 true = true /\
  Rewrite.OwnAs.has_own_as_loop 65000 0 [(2, [65001; 65002])] 0 false = false.
Proof. exact Rewrite.OwnAsProofs.own_as_nonvacuous. Qed.
