(* C13 -- Compiled community matchers decide exactly what their regular expressions decide.
   Statements only. Model: Policy.Community (compiler of standard-community matchers after the two C13
   "fix:" commits), Common.Regex (regular-expression semantics), Common.Decimal. *)
From Coq Require Import List ZArith Bool.
From Verif Require Import Common.Regex Common.Decimal Policy.Community Policy.CommunityCond Policy.CommunityMatch.
Import ListNotations.
Open Scope Z_scope.

(* The executable matcher used by the model (Brzozowski derivatives) is the relational semantics. *)
Theorem C13_regex_matcher_is_semantics : forall r w, matchb r w = true <-> Matches r w.
Proof. exact matchb_spec. Qed.
Print Assumptions C13_regex_matcher_is_semantics.

(* Per compiled mode, for EVERY well-formed pattern the compiler promotes to that mode and EVERY community:
   the fast matcher answers what an unanchored search of the regular expression on "AS:local" answers. *)
Theorem C13_exact_mode : forall p v, wf_pattern p = true -> compile p = MExact v -> matcher_ok (MExact v) p.
Proof. exact exact_ok. Qed.
Print Assumptions C13_exact_mode.

Theorem C13_fixed_as_wildcard_mode : forall p A, wf_pattern p = true -> compile p = MFixedASWild A -> matcher_ok (MFixedASWild A) p.
Proof. exact wildcard_ok. Qed.
Print Assumptions C13_fixed_as_wildcard_mode.

(* the bitmap is filled by evaluating the regular expression on "A:l" for every l; the theorem is that
   no community of another AS can match such a pattern *)
Theorem C13_fixed_as_bitmap_mode : forall p A, wf_pattern p = true -> compile p = MFixedASBitmap A -> matcher_ok (MFixedASBitmap A) p.
Proof. exact bitmap_ok. Qed.
Print Assumptions C13_fixed_as_bitmap_mode.

Theorem C13_regexp_mode : forall p, matcher_ok MRegexp p.
Proof. exact regexp_ok. Qed.
Print Assumptions C13_regexp_mode.

(* All modes together. PARTIAL: the wildcard-AS finite-set mode (^\d+:(5|6)$ ...) enters as the named
   hypothesis local_independent_statement; it is validated by the correspondence check, not proved. *)
Theorem C13_matcher_eq_regex_partial : forall p, wf_pattern p = true -> local_independent_statement p -> matcher_ok (compile p) p.
Proof. exact matcher_eq_regex_partial. Qed.
Print Assumptions C13_matcher_eq_regex_partial.

(* Condition level: with correct matchers, the ANY/INVERT index fast path and the general loop of
   CommunityCondition.Evaluate equal the plain double loop over the regular expressions, for every pattern
   list, community list and option (0 any, 1 all, 2 invert). *)
Theorem C13_condition_eq_reference : forall opt ps cs,
  (forall p, In p ps -> matcher_ok (compile p) p) -> (forall c, In c cs -> in_range c) ->
  evaluate opt ps cs = reference opt ps cs.
Proof. exact condition_eq_reference. Qed.
Print Assumptions C13_condition_eq_reference.

(* Non-vacuity: the recognised shapes are promoted, and the patterns that used to be mis-promoted
   (leading zeros, a second colon after a wildcard, a quantified colon) now stay in regexp mode. *)
Definition P (b e : bool) (s : list piece) : pattern := [ {| s_begin := b; s_seq := s; s_end := e |} ].
Definition L (s : list Z) : list piece := lits s.
Example C13_modes_nonvacuous :
  compile (P true true (L [49;48;48;58;53])) = MExact (100 * 65536 + 5) /\                                  (* ^100:5$ *)
  compile (P true true (L [49;48;48;58] ++ [(AD, QPlus)])) = MFixedASWild 100 /\                           (* ^100:\d+$ *)
  compile (P true true (L [49;48;48;58;49] ++ [(AAny, QStar)])) = MFixedASBitmap 100 /\                    (* ^100:1.*$ *)
  compile (P true true ([(AD, QPlus)] ++ L [58] ++ [(AGrp true [[53];[54]], QOne)])) = MLocalIndep [5; 6] /\ (* ^\d+:(5|6)$ *)
  compile (P true true (L [48;49;48;48;58;53])) = MRegexp /\                                               (* ^0100:5$ *)
  compile (P true true (L [49;48;48;58] ++ [(AD, QPlus)] ++ L [58] ++ [(AD, QPlus)])) = MFixedASBitmap 100 /\ (* ^100:\d+:\d+$: empty bitmap *)
  evaluate 0 [P true true (L [49;48;48;58] ++ [(AD, QPlus)] ++ L [58] ++ [(AD, QPlus)])] [(100, 7)] = false /\
  compile (P true true (L [49;48;48] ++ [(ALit 58, QOpt)] ++ L [53;58;55])) = MRegexp /\                   (* ^100:?5:7$ *)
  wf_pattern (P true true (L [49;48;48;58;49] ++ [(AAny, QStar)])) = true /\
  evaluate 0 [P true true (L [49;48;48] ++ [(ALit 58, QOpt)] ++ L [53;58;55])] [(1005, 7)] = true.
Proof. vm_compute. repeat split; reflexivity. Qed.
