(* C03 -- Best path follows the documented decision process, whatever the arrival order.
   Statements only. Model: Decision.Model (mirrors destination.go insertSort/compareBy*/Calculate,
   after "fix: multipath set must be the leading run ..."). *)
From Coq Require Import List String ZArith Bool Sorted Permutation.
From Verif Require Import Decision.Model Decision.Key Decision.Proofs Generated.C03Chain.
Import ListNotations.
Open Scope Z_scope.

(* The comparator calls found in insertSort's source today are the documented chain, in order. *)
Theorem C03_chain_order_is_documented :
  C03Chain.insert_chain =
  ["compareByLLGRStaleCommunity"; "compareByReachableNexthop"; "compareByLocalPref"; "compareByLocalOrigin";
   "compareByASPath"; "compareByOrigin"; "compareByMED"; "compareByASNumber"; "compareByAge";
   "compareByRouterID"; "compareByNeighborAddress"]%string
  /\ C03Chain.final_result = "true"%string.
Proof. split; reflexivity. Qed.
Print Assumptions C03_chain_order_is_documented.

(* For every pair of candidates from different sources (distinct neighbour addresses, MED comparable,
   no confederation-eBGP/iBGP pair unless external-compare-router-id), under every option setting, the
   chain used as the sort.Search predicate decides exactly the documented lexicographic preference. *)
Theorem C03_chain_is_documented : forall o a b, compat o a b = true -> ins_pred o a b = pref_le o a b.
Proof. exact chain_is_key. Qed.
Print Assumptions C03_chain_is_documented.

(* After ANY history of announcements, replacements and withdrawals over such candidates, the known-path
   list is strictly sorted by the documented preference, has one entry per source, and holds exactly the
   latest un-withdrawn path per source. *)
Theorem C03_sorted_invariant : forall o h, hist_ok o h ->
  StronglySorted (pref_lt o) (run o h) /\ NoDup (map srckey (run o h)) /\ Permutation (run o h) (live h).
Proof. exact sorted_invariant. Qed.
Print Assumptions C03_sorted_invariant.

(* Order independence: two histories leaving the same live candidates give the same list, best path and
   multipath set -- all permutations, replace and withdraw interleavings, every option setting. *)
Theorem C03_order_independent : forall o h1 h2, hist_ok o h1 -> hist_ok o h2 ->
  Permutation (live h1) (live h2) ->
  run o h1 = run o h2 /\ best (run o h1) = best (run o h2) /\ multi (run o h1) = multi (run o h2).
Proof. exact order_independent. Qed.
Print Assumptions C03_order_independent.

(* The reported best path is the most preferred live candidate and has a reachable next hop; no best
   path is reported only if there is no candidate or the most preferred one is unreachable. *)
Theorem C03_best_is_documented : forall o h, hist_ok o h ->
  match best (run o h) with
  | Some b => In b (live h) /\ c_nhinv b = false /\ forall c, In c (live h) -> c = b \/ pref_lt o b c
  | None => live h = [] \/ exists b, In b (live h) /\ c_nhinv b = true /\ forall c, In c (live h) -> c = b \/ pref_lt o b c
  end.
Proof. exact best_is_documented. Qed.
Print Assumptions C03_best_is_documented.

(* The multipath set is the best path followed by the maximal run of reachable paths that compare equal
   to it (Path.Compare), for every list. *)
Theorem C03_multipath_is_equal_prefix : forall l,
  match l with
  | [] => multi l = []
  | b :: r =>
      if c_nhinv b then multi l = []
      else exists m rest, multi l = b :: m /\ l = ((b :: m) ++ rest)%list /\
             (forall x, In x m -> c_nhinv x = false /\ compare_eq0 x b = true) /\
             match rest with [] => True | y :: _ => c_nhinv y = true \/ compare_eq0 y b = false end
  end.
Proof. exact multi_is_equal_prefix. Qed.
Print Assumptions C03_multipath_is_equal_prefix.

(* The statement at full strength -- without the kinds_ok hypothesis -- is FALSE of the code: with
   confederation-eBGP and iBGP candidates tied through MED, the best path depends on the arrival order
   (known finding F-C03-1; witness evaluated by vm_compute, replayed on the implementation by the check). *)
Theorem C03_full_order_independence_refuted :
  exists o h1 h2,
    Permutation (live h1) (live h2) /\
    (forall a b, In a (announced h1) -> In b (announced h1) -> same_source a b = false ->
       negb (opt_eqb (c_addr a) (c_addr b)) && med_applies o a b && addr_nonneg a && addr_nonneg b = true) /\
    best (run o h1) <> best (run o h2).
Proof. exact full_order_independence_refuted. Qed.
Print Assumptions C03_full_order_independence_refuted.

(* ... and, with a live set that IS pairwise MED-comparable, a since-withdrawn candidate that was not can leave the list
   mis-ordered: the reported best path differs from the one a fresh arrival of the same live set gives (known finding
   stale-order-after-incomparable-candidate) *)
Theorem C03_stale_order_after_withdrawal_refuted :
  exists o h,
    (forall a b, In a (live h) -> In b (live h) -> med_applies o a b = true) /\
    best (run o h) <> best (run o (map Announce (live h))).
Proof. exact stale_order_after_withdrawal_refuted. Qed.
Print Assumptions C03_stale_order_after_withdrawal_refuted.

(* Non-vacuity: a five-candidate history (local, two eBGP, two iBGP; a replacement and a withdrawal)
   satisfies hist_ok under every option setting used below. *)
Definition ex_c (tag a id addr lp med ts : Z) (segs : list (Z * list Z)) : cand :=
  {| c_tag := tag; c_as := a; c_localas := 65000; c_id := id; c_localid := 9; c_addr := Some addr; c_confed := false;
     c_pid := 0; c_llgr := false; c_nhinv := false; c_lp := lp; c_segs := segs; c_origin := 0; c_med := med; c_ts := ts |}.
Definition ex_h : list op :=
  [Announce (ex_c 1 65001 1 10 100 0 5 [(2, [65001])]); Announce (ex_c 2 65001 2 11 100 5 6 [(2, [65001; 7])]);
   Announce (ex_c 3 65000 3 12 100 0 7 [(2, [65001])]); Announce (ex_c 4 65001 1 10 200 0 8 [(2, [65001])]);
   Withdraw (ex_c 0 65001 2 11 0 0 0 []); Announce (ex_c 5 65000 4 13 100 0 9 [(2, [65001])])].
Example C03_hist_ok_nonvacuous : forall o, hist_ok o ex_h /\ map c_tag (run o ex_h) = [4; 3; 5].
Proof. intros [[] [] []]; (split; [apply hist_okb_sound; vm_compute; reflexivity | vm_compute; reflexivity]). Qed.
