(* C16 -- RPKI origin validation implements RFC 6811 over a correctly maintained ROA table.
   Statements only. Model: Roa.Model (roa.go, rpki.go after the three RPKI "fix:" commits). *)
From Coq Require Import List ZArith Bool.
From Verif Require Import Roa.Model Roa.Proofs Roa.Rtr.
Import ListNotations.
Open Scope Z_scope.

(* Table maintenance refines set semantics: on every well-formed table (and every table reachable from
   the empty one is well-formed, C16_reachable_wf) Add inserts (idempotently), Delete removes exactly the
   given record, DeleteAll removes exactly the records of one source; emptied buckets are invisible. *)
Theorem C16_table_add : forall t r, WF t ->
  WF (add t r) /\ forall x, In x (entries (add t r)) <-> x = r \/ In x (entries t).
Proof. intros t r H. destruct (add_spec t r H) as (A & B & _). split; assumption. Qed.
Print Assumptions C16_table_add.

Theorem C16_table_delete : forall t r, WF t ->
  WF (delete t r) /\ forall x, In x (entries (delete t r)) <-> In x (entries t) /\ x <> r.
Proof. intros t r H. destruct (delete_spec t r H) as (A & B & _). split; assumption. Qed.
Print Assumptions C16_table_delete.

Theorem C16_table_delete_all : forall t s, WF t ->
  WF (delete_all t s) /\ forall x, In x (entries (delete_all t s)) <-> In x (entries t) /\ r_src x <> s.
Proof. intros t s H. destruct (delete_all_spec t s H) as (A & B & _). split; assumption. Qed.
Print Assumptions C16_table_delete_all.

Theorem C16_reachable_wf : forall h, WF (m_table (run h)).
Proof. exact run_wf. Qed.
Print Assumptions C16_reachable_wf.

(* The ROAs consulted for a route are exactly the table entries whose own prefix covers the route's
   prefix (same family, not longer, equal leading bits): bucket order and bucket structure are irrelevant. *)
Theorem C16_covering_is_containment : forall t fam b m r, WF t ->
  (In r (covering t fam b m) <-> In r (entries t) /\ covers (roa_key r) fam b m = true) /\
  (forall f a l, covers (f, a, l) fam b m = true <->
     f = fam /\ l <= m /\ a / 2 ^ (width f - l) = b / 2 ^ (width f - l)).
Proof. intros. split; [now apply in_covering_wf|intros; apply covers_spec]. Qed.
Print Assumptions C16_covering_is_containment.

(* RFC 6811: Valid iff some covering ROA has the origin AS (never AS 0) and max-length >= prefix length;
   Invalid iff covering ROAs exist and none matches; NotFound iff none covers; a path ending in an AS_SET
   is NotFound. Holds for every table, path and route. *)
Theorem C16_validate_rfc6811 : forall t ownas segs fam b m,
  match origin_as ownas segs with
  | ONone => validate t ownas segs fam b m = NotFound
  | OAs asn =>
      let cov := covering t fam b m in
      (validate t ownas segs fam b m = Valid <-> exists r, In r cov /\ matches asn m r) /\
      (validate t ownas segs fam b m = InvalidAs \/ validate t ownas segs fam b m = InvalidLength <->
         cov <> [] /\ ~ exists r, In r cov /\ matches asn m r) /\
      (validate t ownas segs fam b m = NotFound <-> cov = [])
  end.
Proof. exact validate_rfc6811. Qed.
Print Assumptions C16_validate_rfc6811.

(* Origin AS: last AS of a path ending in an AS_SEQUENCE; the local AS for an empty or
   confederation-terminated path; none (NotFound) for a path ending in an AS_SET. *)
Theorem C16_origin_as : forall ownas segs,
  origin_as ownas segs =
  match rev segs with
  | [] => OAs ownas
  | (t, mem) :: _ =>
      if t =? 2 then OAs (last mem ownas) else if (t =? 3) || (t =? 4) then OAs ownas else ONone
  end.
Proof. exact origin_as_spec. Qed.
Print Assumptions C16_origin_as.

(* One complete cache response: the cache's records become (buffered + announced), plus -- only for an
   incremental update within the same session, no Reset Query outstanding -- the old records that were not
   withdrawn; other caches' records are untouched; the client ends in sync with the response's session
   id and serial. Holds from every well-formed state, for every PDU list. *)
Theorem C16_rtr_response_effect : forall s ps sess serial m c,
  WF (m_table m) -> find_client s (m_clients m) = Some c -> cl_eod c = false ->
  (forall p, In p ps -> r_src (snd p) = s) -> (forall r, In r (cl_pending c) -> r_src r = s) ->
  let m' := fold_left step (pfx_events s ps ++ [EEod s sess serial]) m in
  WF (m_table m') /\
  (forall x, r_src x <> s -> (tbl_in m' x <-> tbl_in m x)) /\
  (forall x, r_src x = s ->
     (tbl_in m' x <-> In x (cl_pending c ++ anns ps) \/ (keep_old c sess = true /\ tbl_in m x /\ ~ In x (wds ps)))) /\
  exists c', find_client s (m_clients m') = Some c' /\ cl_eod c' = true /\ cl_sess c' = sess /\
             cl_serial c' = serial /\ cl_pending c' = [] /\ cl_reset c' = false.
Proof. exact response_effect. Qed.
Print Assumptions C16_rtr_response_effect.

(* Every other event: server removal, disable and a legitimate lifetime expiry remove exactly that
   cache's records; connection events, cache response headers, serial notifies, cache resets and error
   reports never touch the table. *)
Theorem C16_rtr_other_events : forall m e, WF (m_table m) ->
  match e with
  | EDelSrv s | EDisable s =>
      (forall c, find_client s (m_clients m) = Some c ->
         WF (m_table (step m e)) /\ forall x, tbl_in (step m e) x <-> tbl_in m x /\ r_src x <> s)
  | EFire s =>
      forall c, find_client s (m_clients m) = Some c ->
        WF (m_table (step m e)) /\
        forall x, tbl_in (step m e) x <->
                  tbl_in m x /\ (r_src x <> s \/ cl_timer c = false \/ cl_oldsess c <> cl_sess c)
  | ESrv _ | EConn _ | EDisc _ | EResp _ _ | ENotify _ _ _ | ECReset _ | EErr _ =>
      m_table (step m e) = m_table m
  | _ => True
  end.
Proof. exact other_events_frame. Qed.
Print Assumptions C16_rtr_other_events.

(* Non-vacuity: a history with a reconnection and a full reload ends with exactly the reloaded record. *)
Definition ex_r1 := {| r_fam := 1; r_addr := 167772160; r_len := 8; r_maxlen := 24; r_as := 65001; r_src := 1 |}.
Definition ex_r2 := {| r_fam := 1; r_addr := 167837696; r_len := 16; r_maxlen := 24; r_as := 65002; r_src := 1 |}.
Example C16_reload_nonvacuous :
  entries (m_table (run [ESrv 1; EConn 1; EResp 1 5; EPfx 1 true ex_r1; EPfx 1 true ex_r2; EEod 1 5 10;
                         EDisc 1; EConn 1; EResp 1 5; EPfx 1 true ex_r1; EEod 1 5 11])) = [ex_r1]
  /\ validate (m_table (run [ESrv 1; EConn 1; EResp 1 5; EPfx 1 true ex_r1; EEod 1 5 10])) 65000 [(2, [7; 65001])] 1 167837696 24 = Valid.
Proof. split; vm_compute; reflexivity. Qed.
