(* C16 -- lemmas about Roa.Model *)
From Coq Require Import List ZArith Bool Lia.
From Verif Require Import Roa.Model.
Import ListNotations.
Open Scope Z_scope.

(* ---------- keys and records ---------- *)
Lemma key_eqb_eq a b : key_eqb a b = true <-> a = b.
Proof.
  destruct a as [[f1 a1] l1], b as [[f2 a2] l2]; simpl. rewrite !andb_true_iff, !Z.eqb_eq. split.
  - intros [[-> ->] ->]; reflexivity.
  - intros H; injection H as -> -> ->; auto.
Qed.
Lemma key_eqb_refl a : key_eqb a a = true.
Proof. now apply key_eqb_eq. Qed.
Lemma key_eqb_neq a b : key_eqb a b = false <-> a <> b.
Proof. rewrite <- key_eqb_eq. destruct (key_eqb a b); split; congruence. Qed.

Lemma roa_eq_fields a b : roa_key a = roa_key b -> roa_equal a b = true -> a = b.
Proof.
  destruct a, b; unfold roa_key, roa_equal; simpl. intros H. injection H as -> -> ->.
  rewrite !andb_true_iff, !Z.eqb_eq. intros [[-> ->] ->]. reflexivity.
Qed.
Lemma roa_equal_refl a : roa_equal a a = true.
Proof. unfold roa_equal. now rewrite !Z.eqb_refl. Qed.

(* ---------- well-formed tables ---------- *)
Definition bucket_ok (bk : bucket) : Prop :=
  Forall (fun r => roa_key r = fst bk) (snd bk) /\ NoDup (snd bk).
Definition WF (t : table) : Prop := NoDup (map fst t) /\ Forall bucket_ok t.

Lemma WF_nil : WF [].
Proof. split; constructor. Qed.

Lemma in_insert_entry x r es : In x (insert_entry r es) <-> x = r \/ In x es.
Proof.
  induction es as [|e es IH]; simpl; [intuition|].
  destruct (entry_lt r e); simpl; [intuition|]. rewrite IH. intuition.
Qed.

Lemma NoDup_insert_entry r es : ~ In r es -> NoDup es -> NoDup (insert_entry r es).
Proof.
  induction es as [|e es IH]; simpl; intros Hn Hd; [constructor; auto|].
  destruct (entry_lt r e); [constructor; auto|].
  inversion Hd; subst. constructor.
  - rewrite in_insert_entry. intros [->|H]; [apply Hn; now left|contradiction].
  - apply IH; auto.
Qed.

Lemma existsb_roa_equal_in r es : Forall (fun x => roa_key x = roa_key r) es ->
  existsb (roa_equal r) es = true <-> In r es.
Proof.
  intros Hk. rewrite existsb_exists. split.
  - intros (x & Hx & He). rewrite Forall_forall in Hk. now rewrite (roa_eq_fields r x (eq_sym (Hk x Hx)) He).
  - intros H. exists r. split; [assumption|apply roa_equal_refl].
Qed.

Lemma in_entries t x : In x (entries t) <-> exists bk, In bk t /\ In x (snd bk).
Proof. unfold entries. apply in_flat_map. Qed.

Lemma entries_cons bk t : entries (bk :: t) = snd bk ++ entries t.
Proof. reflexivity. Qed.

(* ---- add ---- *)
Lemma add_spec t r : WF t ->
  WF (add t r) /\ (forall x, In x (entries (add t r)) <-> x = r \/ In x (entries t)) /\
  (forall k, In k (map fst (add t r)) <-> k = roa_key r \/ In k (map fst t)).
Proof.
  induction t as [|[k es] t IH]; intros [Hnd Hall].
  - simpl. split; [|split].
    + split; simpl.
      * constructor; [intros []|constructor].
      * constructor; [|constructor]. split; simpl.
        -- constructor; [reflexivity|constructor].
        -- constructor; [intros []|constructor].
    + intros x. simpl. intuition.
    + intros k. simpl. intuition.
  - inversion Hnd as [|? ? Hnin Hnd']; subst. inversion Hall as [|? ? [Hk Hd] Hall']; subst. simpl in Hk.
    cbn [add]. destruct (key_eqb k (roa_key r)) eqn:E.
    + apply key_eqb_eq in E. subst k. split; [|split].
      * split; [exact Hnd|]. constructor; [|exact Hall']. split; cbn [fst snd].
        -- destruct (existsb (roa_equal r) es); [exact Hk|]. apply Forall_forall. intros x Hx.
           apply in_insert_entry in Hx. destruct Hx as [->|Hx]; [reflexivity|]. rewrite Forall_forall in Hk; auto.
        -- destruct (existsb (roa_equal r) es) eqn:Ex; [exact Hd|]. apply NoDup_insert_entry; auto.
           intros Hin. apply (existsb_roa_equal_in r es Hk) in Hin. congruence.
      * intros x. rewrite !entries_cons, !in_app_iff. cbn [snd].
        destruct (existsb (roa_equal r) es) eqn:Ex.
        -- apply (existsb_roa_equal_in r es Hk) in Ex. split; [tauto|]. intros [->|H]; tauto.
        -- rewrite in_insert_entry. tauto.
      * intros k0. simpl. split; [intros [H|H]; auto|intros [H|[H|H]]; auto].
    + destruct (IH (conj Hnd' Hall')) as ([Hnd2 Hall2] & Hin & Hkeys). split; [|split].
      * split.
        -- simpl. constructor; auto. rewrite Hkeys. intros [->|H]; [|contradiction].
           rewrite key_eqb_refl in E. discriminate.
        -- constructor; auto. split; assumption.
      * intros x. rewrite !entries_cons, !in_app_iff, Hin. cbn [snd]. tauto.
      * intros k'. simpl. rewrite Hkeys. tauto.
Qed.

(* ---- delete ---- *)
Lemma remove_first_equal_spec r es : Forall (fun x => roa_key x = roa_key r) es -> NoDup es ->
  NoDup (remove_first_equal r es) /\ (forall x, In x (remove_first_equal r es) <-> In x es /\ x <> r).
Proof.
  induction es as [|e es IH]; intros Hk Hd; simpl.
  - split; [constructor|]. intuition.
  - inversion Hk as [|? ? Hke Hk']; subst. inversion Hd as [|? ? Hnin Hd']; subst.
    destruct (roa_equal e r) eqn:E.
    + pose proof (roa_eq_fields e r Hke E) as ->. split; [assumption|].
      intros x. split.
      * intros H. split; [now right|]. intros ->. contradiction.
      * intros [[->|H] Hne]; [congruence|assumption].
    + destruct (IH Hk' Hd') as [Hd2 Hin]. split.
      * constructor; auto. rewrite Hin. tauto.
      * intros x. simpl. rewrite Hin. split.
        -- intros [->|[H Hne]]; [|tauto]. split; [now left|]. intros ->. rewrite roa_equal_refl in E. discriminate.
        -- intros [[->|H] Hne]; tauto.
Qed.

Lemma delete_spec t r : WF t ->
  WF (delete t r) /\ (forall x, In x (entries (delete t r)) <-> In x (entries t) /\ x <> r) /\
  map fst (delete t r) = map fst t.
Proof.
  induction t as [|[k es] t IH]; intros [Hnd Hall].
  - simpl. split; [apply WF_nil|]. split; [intuition|reflexivity].
  - inversion Hnd as [|? ? Hnin Hnd']; subst. inversion Hall as [|? ? [Hk Hd] Hall']; subst. simpl in Hk.
    cbn [delete]. destruct (key_eqb k (roa_key r)) eqn:E.
    + apply key_eqb_eq in E. subst k.
      destruct (remove_first_equal_spec r es Hk Hd) as [Hd2 Hin].
      split; [|split].
      * split; [exact Hnd|]. constructor; [|exact Hall']. split; cbn [fst snd]; [|exact Hd2].
        apply Forall_forall. intros x Hx. apply Hin in Hx. rewrite Forall_forall in Hk. apply Hk, Hx.
      * intros x. rewrite !entries_cons, !in_app_iff. cbn [snd]. rewrite Hin. split; [|tauto].
        intros [H|H]; [tauto|]. split; [tauto|]. intros ->.
        (* r in another bucket would repeat the key *)
        apply in_entries in H. destruct H as (bk & Hbk & Hx). apply Hnin.
        rewrite Forall_forall in Hall'. destruct (Hall' bk Hbk) as [Hkk _]. rewrite Forall_forall in Hkk.
        rewrite (Hkk r Hx). now apply in_map.
      * reflexivity.
    + destruct (IH (conj Hnd' Hall')) as ([Hnd2 Hall2] & Hin & Hkeys). split; [|split].
      * split; [simpl; rewrite Hkeys; exact Hnd|]. constructor; auto. split; assumption.
      * intros x. rewrite !entries_cons, !in_app_iff, Hin. cbn [snd]. split; [|tauto].
        intros [H|H]; [|tauto]. split; [tauto|]. intros ->. rewrite Forall_forall in Hk.
        rewrite (Hk r H), key_eqb_refl in E. discriminate.
      * simpl. now rewrite Hkeys.
Qed.

(* ---- delete_all ---- *)
Lemma NoDup_filter {A} (p : A -> bool) l : NoDup l -> NoDup (filter p l).
Proof.
  induction 1 as [|x l Hn Hd IH]; simpl; [constructor|]. destruct (p x); auto. constructor; auto.
  rewrite filter_In. tauto.
Qed.

Lemma delete_all_spec t s : WF t ->
  WF (delete_all t s) /\ (forall x, In x (entries (delete_all t s)) <-> In x (entries t) /\ r_src x <> s) /\
  (forall k, In k (map fst (delete_all t s)) -> In k (map fst t)).
Proof.
  induction t as [|[k es] t IH]; intros [Hnd Hall].
  - simpl. split; [apply WF_nil|]. split; [intuition|auto].
  - inversion Hnd as [|? ? Hnin Hnd']; subst. inversion Hall as [|? ? [Hk Hd] Hall']; subst. simpl in Hk.
    destruct (IH (conj Hnd' Hall')) as ([Hnd2 Hall2] & Hin & Hkeys).
    cbn [delete_all].
    assert (Hf : forall x, In x (filter (fun r => negb (r_src r =? s)) es) <-> In x es /\ r_src x <> s).
    { intros x. rewrite filter_In, negb_true_iff, Z.eqb_neq. tauto. }
    destruct (filter (fun r => negb (r_src r =? s)) es) as [|e0 es0] eqn:Ef.
    + split; [split; assumption|]. split.
      * intros x. rewrite Hin, entries_cons, in_app_iff. cbn [snd]. split; [tauto|].
        intros [[H|H] Hs]; [|tauto]. exfalso. apply (Hf x). tauto.
      * intros k' H. simpl. right. auto.
    + split; [|split].
      * split.
        -- simpl. constructor; auto.
        -- constructor; auto. split; cbn [fst snd].
           ++ apply Forall_forall. intros x Hx. apply Hf in Hx. rewrite Forall_forall in Hk. apply Hk, Hx.
           ++ rewrite <- Ef. now apply NoDup_filter.
      * intros x. rewrite !entries_cons, !in_app_iff, Hin. cbn [snd]. rewrite Hf. tauto.
      * intros k' [<-|H]; simpl; auto.
Qed.

Lemma fold_add_spec l : forall t, WF t ->
  WF (fold_left add l t) /\ (forall x, In x (entries (fold_left add l t)) <-> In x l \/ In x (entries t)).
Proof.
  induction l as [|r l IH]; intros t H; simpl; [intuition|].
  destruct (add_spec t r H) as (H1 & H2 & _). destruct (IH _ H1) as [H3 H4]. split; auto.
  intros x. rewrite H4, H2. intuition.
Qed.

(* ---------- Validate is RFC 6811 over the set of entries ---------- *)
Lemma in_covering t fam b m r :
  In r (covering t fam b m) <-> exists bk, In bk t /\ In r (snd bk) /\ covers (fst bk) fam b m = true.
Proof.
  unfold covering. rewrite in_flat_map. split.
  - intros (bk & Hbk & Hr). exists bk. destruct (covers (fst bk) fam b m); [auto|contradiction].
  - intros (bk & Hbk & Hr & Hc). exists bk. now rewrite Hc.
Qed.

(* with well-formed buckets, the covering ROAs are exactly the table entries whose own prefix covers the route *)
Lemma in_covering_wf t fam b m r : WF t ->
  In r (covering t fam b m) <-> In r (entries t) /\ covers (roa_key r) fam b m = true.
Proof.
  intros [_ Hall]. rewrite in_covering, in_entries. rewrite Forall_forall in Hall. split.
  - intros (bk & Hbk & Hr & Hc). destruct (Hall bk Hbk) as [Hk _]. rewrite Forall_forall in Hk.
    rewrite (Hk r Hr). split; eauto.
  - intros [(bk & Hbk & Hr) Hc]. exists bk. destruct (Hall bk Hbk) as [Hk _]. rewrite Forall_forall in Hk.
    rewrite <- (Hk r Hr). auto.
Qed.

Lemma covers_spec f a l fam b m :
  covers (f, a, l) fam b m = true <-> f = fam /\ l <= m /\ a / 2 ^ (width f - l) = b / 2 ^ (width f - l).
Proof. unfold covers. rewrite !andb_true_iff, !Z.eqb_eq, Z.leb_le. tauto. Qed.

Definition matches (asn plen : Z) (r : roa) : Prop := plen <= r_maxlen r /\ r_as r <> 0 /\ r_as r = asn.

Lemma classify_0 asn plen r : classify asn plen r = 0 <-> matches asn plen r.
Proof.
  unfold classify, matches. destruct (plen <=? r_maxlen r) eqn:E1.
  - apply Z.leb_le in E1. destruct (negb (r_as r =? 0) && (r_as r =? asn)) eqn:E2.
    + apply andb_true_iff in E2. destruct E2 as [E2 E3]. apply negb_true_iff, Z.eqb_neq in E2. apply Z.eqb_eq in E3. tauto.
    + split; [discriminate|]. intros (_ & H2 & H3). apply andb_false_iff in E2.
      destruct E2 as [E2|E2]; [apply negb_false_iff, Z.eqb_eq in E2; contradiction|apply Z.eqb_neq in E2; contradiction].
  - apply Z.leb_gt in E1. split; [discriminate|]. intros [H _]. lia.
Qed.

Lemma existsb_map_eqb v (f : roa -> Z) l : existsb (Z.eqb v) (map f l) = true <-> exists r, In r l /\ f r = v.
Proof.
  rewrite existsb_exists. split.
  - intros (x & Hx & E). apply in_map_iff in Hx. destruct Hx as (r & <- & Hr). apply Z.eqb_eq in E. eauto.
  - intros (r & Hr & E). exists (f r). split; [now apply in_map|apply Z.eqb_eq; auto].
Qed.

Theorem validate_rfc6811 t ownas segs fam b m :
  match origin_as ownas segs with
  | ONone => validate t ownas segs fam b m = NotFound
  | OAs asn =>
      let cov := covering t fam b m in
      (validate t ownas segs fam b m = Valid <-> exists r, In r cov /\ matches asn m r) /\
      (validate t ownas segs fam b m = InvalidAs \/ validate t ownas segs fam b m = InvalidLength <->
         cov <> [] /\ ~ exists r, In r cov /\ matches asn m r) /\
      (validate t ownas segs fam b m = NotFound <-> cov = [])
  end.
Proof.
  unfold validate. destruct (origin_as ownas segs) as [asn|]; [|reflexivity].
  cbv zeta. set (cov := covering t fam b m).
  assert (H0 : existsb (Z.eqb 0) (map (classify asn m) cov) = true <-> exists r, In r cov /\ matches asn m r).
  { rewrite existsb_map_eqb. split; intros (r & Hr & H); exists r; (split; [assumption|]); now apply classify_0. }
  assert (Hcls : forall r, classify asn m r = 0 \/ classify asn m r = 1 \/ classify asn m r = 2).
  { intros r. unfold classify. destruct (m <=? r_maxlen r); [destruct (negb (r_as r =? 0) && (r_as r =? asn))|]; auto. }
  destruct (existsb (Z.eqb 0) (map (classify asn m) cov)) eqn:E0.
  - assert (Hm : exists r, In r cov /\ matches asn m r) by now apply H0.
    split; [tauto|]. split.
    + split; [intros [H|H]; discriminate|]. intros [_ Hn]. contradiction.
    + split; [discriminate|]. intros Hc. destruct Hm as (r & Hr & _). rewrite Hc in Hr. contradiction.
  - assert (Hm : ~ exists r, In r cov /\ matches asn m r) by (intros H; apply H0 in H; discriminate).
    destruct (existsb (Z.eqb 1) (map (classify asn m) cov)) eqn:E1.
    + apply existsb_map_eqb in E1. destruct E1 as (r & Hr & _).
      assert (cov <> []) by (intros Hc; rewrite Hc in Hr; contradiction).
      split; [split; [discriminate|tauto]|]. split; [tauto|]. split; [discriminate|contradiction].
    + destruct (existsb (Z.eqb 2) (map (classify asn m) cov)) eqn:E2.
      * apply existsb_map_eqb in E2. destruct E2 as (r & Hr & _).
        assert (cov <> []) by (intros Hc; rewrite Hc in Hr; contradiction).
        split; [split; [discriminate|tauto]|]. split; [tauto|]. split; [discriminate|contradiction].
      * assert (cov = []).
        { destruct cov as [|r cov'] eqn:Ec; [reflexivity|]. exfalso.
          destruct (Hcls r) as [H|[H|H]].
          - apply Hm. exists r. split; [now left|now apply classify_0].
          - assert (existsb (Z.eqb 1) (map (classify asn m) (r :: cov')) = true) by (apply existsb_map_eqb; exists r; split; [now left|assumption]). congruence.
          - assert (existsb (Z.eqb 2) (map (classify asn m) (r :: cov')) = true) by (apply existsb_map_eqb; exists r; split; [now left|assumption]). congruence. }
        split; [split; [discriminate|tauto]|]. split; [|tauto].
        split; [intros [H'|H']; discriminate|]. intros [Hne _]. contradiction.
Qed.

(* origin AS extraction *)
Lemma origin_as_spec ownas segs :
  origin_as ownas segs =
  match rev segs with
  | [] => OAs ownas
  | (t, mem) :: _ =>
      if t =? 2 then OAs (last mem ownas)
      else if (t =? 3) || (t =? 4) then OAs ownas else ONone
  end.
Proof.
  unfold origin_as. destruct (rev segs) as [|[t mem] r]; [reflexivity|].
  destruct (t =? 2); [|reflexivity].
  destruct mem as [|a mem] using rev_ind; [reflexivity|]. rewrite rev_app_distr; simpl. now rewrite last_last.
Qed.
