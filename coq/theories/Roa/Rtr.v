(* C16 -- the RTR client: effect of one cache response on the ROA table, and the frame conditions
   of every other event. *)
From Coq Require Import List ZArith Bool Lia.
From Verif Require Import Roa.Model Roa.Proofs.
Import ListNotations.
Open Scope Z_scope.

Definition tbl_in (m : mgr) (x : roa) : Prop := In x (entries (m_table m)).

Lemma find_client_src s cs c : find_client s cs = Some c -> cl_src c = s.
Proof.
  induction cs as [|x cs IH]; simpl; [discriminate|]. destruct (cl_src x =? s) eqn:E; auto.
  intros H; injection H as <-. now apply Z.eqb_eq.
Qed.

Lemma find_set_client s cs c c' : find_client s cs = Some c -> cl_src c' = s ->
  find_client s (set_client c' cs) = Some c'.
Proof.
  intros H Hs. induction cs as [|x cs IH]; simpl in *; [discriminate|].
  destruct (cl_src x =? s) eqn:E.
  - rewrite Hs, E. simpl. rewrite Hs, Z.eqb_refl. reflexivity.
  - rewrite Hs, E. simpl. rewrite E. auto.
Qed.

Lemma find_set_client_other s s' cs c' : cl_src c' = s' -> s <> s' ->
  find_client s (set_client c' cs) = find_client s cs.
Proof.
  intros Hs Hne. induction cs as [|x cs IH]; simpl; [reflexivity|].
  rewrite Hs. destruct (cl_src x =? s') eqn:E; simpl.
  - apply Z.eqb_eq in E. rewrite Hs, E. destruct (s' =? s) eqn:E2; [apply Z.eqb_eq in E2; congruence|reflexivity].
  - destruct (cl_src x =? s); auto.
Qed.

Definition set_pending (c : client) (p : list roa) : client :=
  {| cl_src := cl_src c; cl_sess := cl_sess c; cl_oldsess := cl_oldsess c; cl_serial := cl_serial c;
     cl_eod := cl_eod c; cl_reset := cl_reset c; cl_conn := cl_conn c; cl_timer := cl_timer c; cl_pending := p |}.

Definition pfx_events (s : Z) (ps : list (bool * roa)) : list event := map (fun p => EPfx s (fst p) (snd p)) ps.
Definition anns (ps : list (bool * roa)) : list roa := map snd (filter (fun p => fst p) ps).
Definition wds (ps : list (bool * roa)) : list roa := map snd (filter (fun p => negb (fst p)) ps).

Lemma set_pending_same c : set_pending c (cl_pending c) = c.
Proof. now destruct c. Qed.

(* the prefix PDUs of a response: withdrawals hit the table at once, announcements are buffered *)
Lemma pfx_loop s ps : forall m c,
  WF (m_table m) -> find_client s (m_clients m) = Some c -> cl_eod c = false ->
  let m1 := fold_left step (pfx_events s ps) m in
  WF (m_table m1) /\
  (forall x, tbl_in m1 x <-> tbl_in m x /\ ~ In x (wds ps)) /\
  find_client s (m_clients m1) = Some (set_pending c (cl_pending c ++ anns ps)).
Proof.
  induction ps as [|[ann r] ps IH]; intros m c Hwf Hf He; cbn zeta.
  - simpl. rewrite app_nil_r, set_pending_same. split; [assumption|]. split; [|assumption]. unfold tbl_in. intuition.
  - pose proof (find_client_src _ _ _ Hf) as Hsrc.
    cbn [pfx_events map fold_left fst snd]. fold (pfx_events s ps).
    destruct ann.
    + (* announcement: buffered *)
      set (c1 := set_pending c (cl_pending c ++ [r])).
      assert (Hstep : step m (EPfx s true r) = upd m (m_table m) c1).
      { cbn [step]. unfold with_client. rewrite Hf. unfold c1, set_pending. rewrite He. reflexivity. }
      rewrite Hstep.
      destruct (IH (upd m (m_table m) c1) c1) as (H1 & H2 & H3); auto.
      { apply find_set_client with (c := c); auto. }
      split; [exact H1|]. split.
      * intros x. rewrite H2. unfold tbl_in, wds. simpl. tauto.
      * rewrite H3. unfold c1, set_pending, anns; simpl. rewrite <- app_assoc. reflexivity.
    + (* withdrawal: applied immediately *)
      assert (Hstep : step m (EPfx s false r) = upd m (delete (m_table m) r) c).
      { cbn [step]. unfold with_client. rewrite Hf. reflexivity. }
      rewrite Hstep. destruct (delete_spec (m_table m) r Hwf) as (Hwf' & Hin & _).
      destruct (IH (upd m (delete (m_table m) r) c) c) as (H1 & H2 & H3); auto.
      { apply find_set_client with (c := c); auto. }
      split; [exact H1|]. split.
      * intros x. rewrite H2. unfold tbl_in, upd. cbn [m_table]. rewrite Hin. unfold wds. simpl.
        split; [intros [[A B] C]|intros [A B]].
        -- split; [assumption|]. intros [E|E]; [congruence|contradiction].
        -- split; [split; [assumption|]|]; intros E; apply B; [now left|now right].
      * rewrite H3. unfold anns. reflexivity.
Qed.

Definition keep_old (c : client) (sess : Z) : bool := (cl_sess c =? sess) && negb (cl_reset c).

(* One complete cache response (prefix PDUs, then End of Data): afterwards the records of that cache
   are the buffered + announced ones, plus -- only for an incremental update of the same session --
   the old ones that were not withdrawn; records of other caches are untouched; the client is in sync. *)
Theorem response_effect s ps sess serial m c :
  WF (m_table m) -> find_client s (m_clients m) = Some c -> cl_eod c = false ->
  (forall p, In p ps -> r_src (snd p) = s) -> (forall r, In r (cl_pending c) -> r_src r = s) ->
  let m' := fold_left step (pfx_events s ps ++ [EEod s sess serial]) m in
  WF (m_table m') /\
  (forall x, r_src x <> s -> (tbl_in m' x <-> tbl_in m x)) /\
  (forall x, r_src x = s ->
     (tbl_in m' x <-> In x (cl_pending c ++ anns ps) \/ (keep_old c sess = true /\ tbl_in m x /\ ~ In x (wds ps)))) /\
  exists c', find_client s (m_clients m') = Some c' /\ cl_eod c' = true /\ cl_sess c' = sess /\
             cl_serial c' = serial /\ cl_pending c' = [] /\ cl_reset c' = false.
Proof.
  intros Hwf Hf He Hps Hpend. cbn zeta. rewrite fold_left_app.
  destruct (pfx_loop s ps m c Hwf Hf He) as (Hwf1 & Hin1 & Hf1).
  set (m1 := fold_left step (pfx_events s ps) m) in *.
  set (c1 := set_pending c (cl_pending c ++ anns ps)) in *.
  cbn [fold_left step]. unfold with_client. rewrite Hf1.
  set (t1 := if negb (cl_sess c1 =? sess) || cl_reset c1 then delete_all (m_table m1) s else m_table m1).
  assert (Ht1 : WF t1 /\ forall x, In x (entries t1) <->
            In x (entries (m_table m1)) /\ (keep_old c sess = true \/ r_src x <> s)).
  { unfold t1, keep_old. change (cl_sess c1) with (cl_sess c). change (cl_reset c1) with (cl_reset c).
    destruct (cl_sess c =? sess); destruct (cl_reset c); cbn [negb orb andb].
    - destruct (delete_all_spec (m_table m1) s Hwf1) as (A & B & _). split; [exact A|]. intros x. rewrite B.
      split; [intros [P Q]; split; [assumption|now right]|intros [P [Q|Q]]; [discriminate|tauto]].
    - split; [exact Hwf1|]. intros x. tauto.
    - destruct (delete_all_spec (m_table m1) s Hwf1) as (A & B & _). split; [exact A|]. intros x. rewrite B.
      split; [intros [P Q]; split; [assumption|now right]|intros [P [Q|Q]]; [discriminate|tauto]].
    - destruct (delete_all_spec (m_table m1) s Hwf1) as (A & B & _). split; [exact A|]. intros x. rewrite B.
      split; [intros [P Q]; split; [assumption|now right]|intros [P [Q|Q]]; [discriminate|tauto]]. }
  destruct Ht1 as [Hwf2 Hin2].
  destruct (fold_add_spec (cl_pending c1) t1 Hwf2) as [Hwf3 Hin3].
  cbn [upd m_table m_clients].
  assert (Hann : forall x, In x (cl_pending c ++ anns ps) -> r_src x = s).
  { intros x Hx. apply in_app_or in Hx. destruct Hx as [Hx|Hx]; [auto|].
    unfold anns in Hx. apply in_map_iff in Hx. destruct Hx as (p & <- & Hp). apply filter_In in Hp. apply Hps, Hp. }
  assert (Hwd : forall x, In x (wds ps) -> r_src x = s).
  { intros x Hx. unfold wds in Hx. apply in_map_iff in Hx. destruct Hx as (p & <- & Hp). apply filter_In in Hp. apply Hps, Hp. }
  split; [exact Hwf3|]. split; [|split].
  - intros x Hx. unfold tbl_in at 1. cbn [m_table]. rewrite Hin3, Hin2. fold (tbl_in m1 x). rewrite Hin1.
    change (cl_pending c1) with (cl_pending c ++ anns ps). split.
    + intros [H|[[H _] _]]; [exfalso; apply Hx; auto|assumption].
    + intros H. right. split; [split; [assumption|]|now right]. intros Hw. apply Hx. auto.
  - intros x Hx. unfold tbl_in at 1. cbn [m_table]. rewrite Hin3, Hin2. fold (tbl_in m1 x). rewrite Hin1.
    change (cl_pending c1) with (cl_pending c ++ anns ps). split.
    + intros [H|[[H1 H2] [H3|H3]]]; [now left|right; tauto|contradiction].
    + intros [H|[H1 [H2 H3]]]; [now left|right]. tauto.
  - eexists. split.
    + apply find_set_client with (c := c1); [exact Hf1|]. cbn [cl_src]. apply (find_client_src _ _ _ Hf).
    + cbn. repeat split; reflexivity.
Qed.

(* Frame conditions: which events can change the table at all, and how. *)
Theorem other_events_frame m e : WF (m_table m) ->
  match e with
  | EDelSrv s | EDisable s =>
      (forall c, find_client s (m_clients m) = Some c ->
         WF (m_table (step m e)) /\ forall x, tbl_in (step m e) x <-> tbl_in m x /\ r_src x <> s)
  | EFire s =>
      forall c, find_client s (m_clients m) = Some c ->
        WF (m_table (step m e)) /\
        forall x, tbl_in (step m e) x <->
                  tbl_in m x /\ (r_src x <> s \/ cl_timer c = false \/ cl_oldsess c <> cl_sess c)
  | ESrv _ | EConn _ | EDisc _ | EResp _ _ | ENotify _ _ _ | ECReset _ | EErr _ =>
      m_table (step m e) = m_table m
  | _ => True
  end.
Proof.
  intros Hwf. destruct e; auto; cbn [step]; unfold with_client.
  - destruct (find_client src (m_clients m)); reflexivity.
  - destruct (find_client src (m_clients m)); reflexivity.
  - destruct (find_client src (m_clients m)); reflexivity.
  - intros c Hc. rewrite Hc. destruct (cl_timer c) eqn:Et.
    + destruct (cl_oldsess c =? cl_sess c) eqn:Es; cbn [upd m_table].
      * destruct (delete_all_spec (m_table m) src Hwf) as (A & B & _). split; [exact A|].
        intros x. unfold tbl_in; cbn [m_table]. rewrite B. apply Z.eqb_eq in Es. split; [tauto|].
        intros [P [Q|[Q|Q]]]; try tauto; try discriminate.
      * split; [exact Hwf|]. intros x. apply Z.eqb_neq in Es. unfold tbl_in. tauto.
    + split; [exact Hwf|]. intros x. unfold tbl_in. tauto.
  - intros c Hc. rewrite Hc. cbn [m_table]. destruct (delete_all_spec (m_table m) src Hwf) as (A & B & _). split; auto.
  - intros c Hc. rewrite Hc. cbn [m_table]. destruct (delete_all_spec (m_table m) src Hwf) as (A & B & _). split; auto.
  - destruct (find_client src (m_clients m)); reflexivity.
  - destruct (find_client src (m_clients m)) as [c|]; [|reflexivity].
    destruct (before (cl_serial c) serial); [reflexivity|]. destruct (cl_serial c =? serial); reflexivity.
  - destruct (find_client src (m_clients m)); reflexivity.
Qed.

(* The table stays well-formed along every history. *)
Theorem run_wf h : WF (m_table (run h)).
Proof.
  unfold run. assert (G : forall m, WF (m_table m) -> WF (m_table (fold_left step h m))).
  { induction h as [|e h IH]; intros m Hm; [assumption|]. cbn [fold_left]. apply IH.
    destruct e; cbn [step]; unfold with_client; cbn [m_table]; try assumption;
      try (destruct (find_client _ (m_clients m)) as [c|]; cbn [upd m_table]; try assumption).
    - apply (add_spec _ _ Hm).
    - apply (delete_spec _ _ Hm).
    - apply (delete_all_spec _ _ Hm).
    - destruct (cl_timer c); [|assumption]. destruct (cl_oldsess c =? cl_sess c); cbn [upd m_table]; [apply (delete_all_spec _ _ Hm)|assumption].
    - apply (delete_all_spec _ _ Hm).
    - apply (delete_all_spec _ _ Hm).
    - destruct announce; [destruct (cl_eod c)|]; cbn [upd m_table]; [apply (add_spec _ _ Hm)|assumption|apply (delete_spec _ _ Hm)].
    - apply fold_add_spec. destruct (negb (cl_sess c =? sess) || cl_reset c); [apply (delete_all_spec _ _ Hm)|assumption].
    - destruct (before (cl_serial c) serial); [assumption|]. destruct (cl_serial c =? serial); assumption. }
  apply G. apply WF_nil.
Qed.
