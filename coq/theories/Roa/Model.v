(* C16 -- executable model of internal/pkg/table/roa.go (ROATable Add/Delete/DeleteAll/Validate)
   and pkg/server/rpki.go (handleRTRMsg, HandleROAEvent), after the three "fix:" commits
   (Disable key, stale lifetime timer, full reload). Definitions only. *)
From Coq Require Import List ZArith Bool.
Import ListNotations.
Open Scope Z_scope.

Record roa := { r_fam : Z; r_addr : Z; r_len : Z; r_maxlen : Z; r_as : Z; r_src : Z }.
(* r_fam: 1 = IPv4, 2 = IPv6. r_addr: the prefix as a number of [width fam] bits, host bits zero. *)

Definition width (fam : Z) : Z := if fam =? 1 then 32 else 64.  (* the model keeps the top 64 bits of IPv6 *)

Definition key := (Z * Z * Z)%type.   (* the IPNet key of the critbit tree: family tree, address, mask length *)
Definition roa_key (r : roa) : key := (r_fam r, r_addr r, r_len r).
Definition key_eqb (a b : key) : bool :=
  let '(f1, a1, l1) := a in let '(f2, a2, l2) := b in (f1 =? f2) && (a1 =? a2) && (l1 =? l2).

(* ROA.Equal: only MaxLen, Src and AS (the network is the bucket's) *)
Definition roa_equal (a b : roa) : bool :=
  (r_maxlen a =? r_maxlen b) && (r_src a =? r_src b) && (r_as a =? r_as b).

Definition bucket := (key * list roa)%type.
Definition table := list bucket.

(* sort.Slice by (MaxLen, AS): modelled as insertion of the appended element (any stable or unstable
   sort gives the same SET of entries; only the set is observable through List/Validate) *)
Definition entry_lt (a b : roa) : bool :=
  if r_maxlen a <? r_maxlen b then true else if r_maxlen b <? r_maxlen a then false else r_as a <? r_as b.
Fixpoint insert_entry (r : roa) (l : list roa) : list roa :=
  match l with
  | [] => [r]
  | x :: rest => if entry_lt r x then r :: l else x :: insert_entry r rest
  end.

Fixpoint add (t : table) (r : roa) : table :=
  match t with
  | [] => [(roa_key r, [r])]
  | (k, es) :: rest =>
      if key_eqb k (roa_key r) then
        (k, if existsb (roa_equal r) es then es else insert_entry r es) :: rest
      else (k, es) :: add rest r
  end.

Fixpoint remove_first_equal (r : roa) (l : list roa) : list roa :=
  match l with
  | [] => []
  | x :: rest => if roa_equal x r then rest else x :: remove_first_equal r rest
  end.

Fixpoint delete (t : table) (r : roa) : table :=
  match t with
  | [] => []
  | (k, es) :: rest =>
      if key_eqb k (roa_key r) then (k, remove_first_equal r es) :: rest   (* an emptied bucket stays *)
      else (k, es) :: delete rest r
  end.

Fixpoint delete_all (t : table) (src : Z) : table :=
  match t with
  | [] => []
  | (k, es) :: rest =>
      let es' := filter (fun r => negb (r_src r =? src)) es in
      match es' with
      | [] => delete_all rest src                       (* bucket removed from the tree *)
      | _ => (k, es') :: delete_all rest src
      end
  end.

Definition entries (t : table) : list roa := flat_map snd t.

(* ---- Validate ---- *)
(* does the stored network (fam,a,l) contain the route's network (fam',b,m)?  (critbit WalkMatch) *)
Definition covers (k : key) (fam b m : Z) : bool :=
  let '(f, a, l) := k in
  (f =? fam) && (l <=? m) && (a / 2 ^ (width f - l) =? b / 2 ^ (width f - l)).

Inductive origin := OAs (a : Z) | ONone.   (* ONone: final AS_SET (or unknown type): NotFound *)
Definition origin_as (ownas : Z) (segs : list (Z * list Z)) : origin :=
  match rev segs with
  | [] => OAs ownas
  | (t, m) :: _ =>
      if t =? 2 then match rev m with [] => OAs ownas | a :: _ => OAs a end
      else if (t =? 3) || (t =? 4) then OAs ownas
      else ONone
  end.

Inductive status := Valid | InvalidAs | InvalidLength | NotFound.

Definition classify (asn plen : Z) (r : roa) : Z :=   (* 0 matched, 1 unmatched-as, 2 unmatched-length *)
  if plen <=? r_maxlen r then (if negb (r_as r =? 0) && (r_as r =? asn) then 0 else 1) else 2.

Definition covering (t : table) (fam b m : Z) : list roa :=
  flat_map (fun bk : bucket => if covers (fst bk) fam b m then snd bk else []) t.

Definition validate (t : table) (ownas : Z) (segs : list (Z * list Z)) (fam b m : Z) : status :=
  match origin_as ownas segs with
  | ONone => NotFound
  | OAs asn =>
      let cs := map (classify asn m) (covering t fam b m) in
      if existsb (Z.eqb 0) cs then Valid
      else if existsb (Z.eqb 1) cs then InvalidAs
      else if existsb (Z.eqb 2) cs then InvalidLength
      else NotFound
  end.

(* ---- RTR client ---- *)
Record client := {
  cl_src : Z; cl_sess : Z; cl_oldsess : Z; cl_serial : Z; cl_eod : bool; cl_reset : bool;
  cl_conn : bool; cl_timer : bool; cl_pending : list roa
}.
Definition new_client (src : Z) : client :=
  {| cl_src := src; cl_sess := 0; cl_oldsess := 0; cl_serial := 0; cl_eod := false; cl_reset := false;
     cl_conn := false; cl_timer := false; cl_pending := [] |}.

Record mgr := { m_table : table; m_clients : list client }.

Inductive event :=
| ETabAdd (r : roa) | ETabDel (r : roa) | ETabDelAll (src : Z)          (* table level (C16 part one) *)
| ESrv (src : Z) | EConn (src : Z) | EDisc (src : Z) | EFire (src : Z) | EDelSrv (src : Z) | EDisable (src : Z)
| EResp (src sess : Z) | EPfx (src : Z) (announce : bool) (r : roa) | EEod (src sess serial : Z)
| ENotify (src sess serial : Z) | ECReset (src : Z) | EErr (src : Z).

Fixpoint find_client (src : Z) (cs : list client) : option client :=
  match cs with [] => None | c :: r => if cl_src c =? src then Some c else find_client src r end.
Fixpoint set_client (c : client) (cs : list client) : list client :=
  match cs with [] => [] | x :: r => if cl_src x =? cl_src c then c :: r else x :: set_client c r end.
Fixpoint del_client (src : Z) (cs : list client) : list client :=
  match cs with [] => [] | x :: r => if cl_src x =? src then r else x :: del_client src r end.

(* roaClient.softReset: only acts on a live connection *)
Definition soft_reset (c : client) : client :=
  if cl_conn c then
    {| cl_src := cl_src c; cl_sess := cl_sess c; cl_oldsess := cl_oldsess c; cl_serial := cl_serial c;
       cl_eod := false; cl_reset := true; cl_conn := true; cl_timer := cl_timer c; cl_pending := [] |}
  else c.

(* serial-number arithmetic of `before` *)
Definition before (a b : Z) : bool :=
  let d := (a - b) mod 4294967296 in 2147483648 <=? d.

Definition with_client (m : mgr) (src : Z) (f : client -> mgr) : mgr :=
  match find_client src (m_clients m) with None => m | Some c => f c end.

Definition upd (m : mgr) (t : table) (c : client) : mgr :=
  {| m_table := t; m_clients := set_client c (m_clients m) |}.

Definition step (m : mgr) (e : event) : mgr :=
  match e with
  | ETabAdd r => {| m_table := add (m_table m) r; m_clients := m_clients m |}
  | ETabDel r => {| m_table := delete (m_table m) r; m_clients := m_clients m |}
  | ETabDelAll s => {| m_table := delete_all (m_table m) s; m_clients := m_clients m |}
  | ESrv s =>
      match find_client s (m_clients m) with
      | Some _ => m
      | None => {| m_table := m_table m; m_clients := m_clients m ++ [new_client s] |}
      end
  | EConn s => with_client m s (fun c =>
      upd m (m_table m) (soft_reset
        {| cl_src := cl_src c; cl_sess := cl_sess c; cl_oldsess := cl_oldsess c; cl_serial := cl_serial c;
           cl_eod := cl_eod c; cl_reset := cl_reset c; cl_conn := true; cl_timer := cl_timer c; cl_pending := cl_pending c |}))
  | EDisc s => with_client m s (fun c =>
      upd m (m_table m)
        {| cl_src := cl_src c; cl_sess := cl_sess c; cl_oldsess := cl_sess c; cl_serial := cl_serial c;
           cl_eod := false; cl_reset := cl_reset c; cl_conn := false; cl_timer := true; cl_pending := [] |})
  | EFire s => with_client m s (fun c =>
      if cl_timer c then
        let c' := {| cl_src := cl_src c; cl_sess := cl_sess c; cl_oldsess := cl_oldsess c; cl_serial := cl_serial c;
                     cl_eod := cl_eod c; cl_reset := cl_reset c; cl_conn := cl_conn c; cl_timer := false; cl_pending := cl_pending c |} in
        if cl_oldsess c =? cl_sess c then upd m (delete_all (m_table m) s) c' else upd m (m_table m) c'
      else m)
  | EDelSrv s => with_client m s (fun _ =>
      {| m_table := delete_all (m_table m) s; m_clients := del_client s (m_clients m) |})
  | EDisable s => with_client m s (fun c =>
      (* client.reset() closes the socket; the roaDisconnected event follows as its own event *)
      {| m_table := delete_all (m_table m) s; m_clients := m_clients m |})
  | EResp s _ => with_client m s (fun c =>
      upd m (m_table m)
        {| cl_src := cl_src c; cl_sess := cl_sess c; cl_oldsess := cl_oldsess c; cl_serial := cl_serial c;
           cl_eod := false; cl_reset := cl_reset c; cl_conn := cl_conn c; cl_timer := cl_timer c; cl_pending := cl_pending c |})
  | EPfx s ann r => with_client m s (fun c =>
      if ann then
        if cl_eod c then upd m (add (m_table m) r) c
        else upd m (m_table m)
          {| cl_src := cl_src c; cl_sess := cl_sess c; cl_oldsess := cl_oldsess c; cl_serial := cl_serial c;
             cl_eod := cl_eod c; cl_reset := cl_reset c; cl_conn := cl_conn c; cl_timer := cl_timer c;
             cl_pending := cl_pending c ++ [r] |}
      else upd m (delete (m_table m) r) c)
  | EEod s sess serial => with_client m s (fun c =>
      let t1 := if negb (cl_sess c =? sess) || cl_reset c then delete_all (m_table m) s else m_table m in
      let t2 := fold_left add (cl_pending c) t1 in
      upd m t2
        {| cl_src := cl_src c; cl_sess := sess; cl_oldsess := cl_oldsess c; cl_serial := serial;
           cl_eod := true; cl_reset := false; cl_conn := cl_conn c; cl_timer := false; cl_pending := [] |})
  | ENotify s _ serial => with_client m s (fun c =>
      if before (cl_serial c) serial then m                (* Serial Query sent; no state change *)
      else if cl_serial c =? serial then m
      else upd m (m_table m) (soft_reset c))
  | ECReset s => with_client m s (fun c => upd m (m_table m) (soft_reset c))
  | EErr s => m
  end.

Definition init : mgr := {| m_table := []; m_clients := [] |}.
Definition run (h : list event) : mgr := fold_left step h init.
