(* C11 -- executable model of internal/pkg/table/message.go CreateUpdateMsgFromPaths, packerV4.add/pack,
   packerMP.add/pack (split), createMPReachMessage, after "fix: IPv4 UPDATE packing dropped or panicked ...".
   Sizes are the byte counts the wire codec reports: p_alen = sum of Len() of the route's attributes other
   than MP_REACH_NLRI, p_nlen = NLRI.Len().  Attribute byte strings are represented by an identity
   (p_attrs): two routes have equal attribute bytes iff equal identities (what bytes.Equal decides), so
   the hash functions (fnv1a, Path.GetHash) and Go's map iteration order only permute the output.
   Definitions only. *)
From Coq Require Import List ZArith Bool.
Import ListNotations.
Open Scope Z_scope.

Record path := {
  p_fam : Z;      (* 1 = IPv4 unicast (packerV4); anything else: packerMP *)
  p_key : Z;      (* identity of the NLRI (prefix) *)
  p_pid : Z;      (* local path identifier *)
  p_kind : Z;     (* 0 announce, 1 withdraw, 2 End-of-RIB *)
  p_attrs : Z;    (* identity of the attribute bytes (without MP_REACH_NLRI) *)
  p_alen : Z;     (* their total length *)
  p_nhk : Z;      (* 0: IPv4 next hop in NEXT_HOP; 1: IPv6 global; 2: IPv6 global + link-local *)
  p_nlen : Z      (* NLRI.Len(): 1 + ceil(bits/8) *)
}.
Record popt := { o_limit : Z; o_ap : Z }.   (* 4096 | 65535 ; 0 | 4 *)

Inductive msg :=
| MW4 (ws : list path)                  (* IPv4 UPDATE with withdrawn routes only *)
| MU4 (rep : path) (ns : list path)     (* attributes of rep + NLRI field *)
| MReach (rep : path) (ns : list path)  (* attributes of rep + MP_REACH_NLRI(next hops of rep, ns) *)
| MUnreach (fam : Z) (ws : list path)   (* MP_UNREACH_NLRI only *)
| MEor (fam : Z).

Definition is_wd (p : path) : bool := p_kind p =? 1.
Definition is_eor (p : path) : bool := p_kind p =? 2.
(* Go: IsEOR / IsWithdraw / otherwise an announcement *)
Definition is_ann (p : path) : bool := negb (is_wd p) && negb (is_eor p).
Definition same_key (a b : path) : bool := (p_fam a =? p_fam b) && (p_key a =? p_key b) && (p_pid a =? p_pid b).

(* last action per (family, prefix, path id) wins; End-of-RIB markers are all kept *)
Fixpoint dedup_last (l : list path) : list path :=
  match l with
  | [] => []
  | x :: r =>
      if is_eor x then x :: dedup_last r
      else if existsb (fun y => negb (is_eor y) && same_key x y) r then dedup_last r
      else x :: dedup_last r
  end.

(* stable grouping by a boolean equivalence, groups in order of first appearance *)
Fixpoint group_by (fuel : nat) (eq : path -> path -> bool) (l : list path) : list (list path) :=
  match fuel with
  | O => []
  | S f =>
      match l with
      | [] => []
      | x :: r => (x :: filter (eq x) r) :: group_by f eq (filter (fun y => negb (eq x y)) r)
      end
  end.
Definition groups (eq : path -> path -> bool) (l : list path) : list (list path) := group_by (length l) eq l.

(* packerV4 split/loop: chunks of at most n elements *)
Fixpoint chunk (fuel : nat) (n : nat) (l : list path) : list (list path) :=
  match fuel with
  | O => []
  | S f => match l with [] => [] | _ => firstn n l :: chunk f n (skipn n l) end
  end.
Definition chunks (n : nat) (l : list path) : list (list path) := chunk (length l) n l.

Definition max_nlris (o : popt) (alen : Z) : nat :=
  let q := Z.quot (o_limit o - (19 + 2 + 2 + alen)) (5 + o_ap o) in
  Z.to_nat (if q <? 1 then 1 else q).

Definition same_attrs (a b : path) : bool := p_attrs a =? p_attrs b.
Definition same_attrs_nh (a b : path) : bool := (p_attrs a =? p_attrs b) && (p_nhk a =? p_nhk b).

Definition pack_v4 (o : popt) (l : list path) : list msg :=
  let ws := filter is_wd l in
  let v4 := filter (fun p => is_ann p && (p_nhk p =? 0)) l in
  let mp := filter (fun p => is_ann p && negb (p_nhk p =? 0)) l in
  map MW4 (chunks (max_nlris o 0) ws)
  ++ flat_map (fun g => match g with [] => [] | rep :: _ => map (MU4 rep) (chunks (max_nlris o (p_alen rep)) g) end)
              (groups same_attrs v4)
  ++ map (fun p => MReach p [p]) mp
  ++ (if existsb is_eor l then [MEor 1] else []).

(* packerMP.split: greedy by byte budget; always at least one NLRI per message *)
Fixpoint take_budget (o : popt) (budget used : Z) (first : bool) (l : list path) : list path * list path :=
  match l with
  | [] => ([], [])
  | x :: r =>
      let nl := p_nlen x + o_ap o in
      if negb first && (budget <? used + nl) then ([], l)
      else if budget <=? used + nl then ([x], r)
      else let '(a, b) := take_budget o budget (used + nl) false r in (x :: a, b)
  end.
Fixpoint split_budget (fuel : nat) (o : popt) (budget : Z) (l : list path) : list (list path) :=
  match fuel with
  | O => []
  | S f =>
      match l with
      | [] => []
      | _ => let '(a, b) := take_budget o budget 0 true l in a :: split_budget f o budget b
      end
  end.
Definition split_mp (o : popt) (base : Z) (l : list path) : list (list path) :=
  let budget := o_limit o - base in
  if budget <=? 0 then map (fun p => [p]) l else split_budget (length l) o budget l.

Definition nhlen (k : Z) : Z := if k =? 0 then 4 else if k =? 1 then 16 else 32.
Definition base_unreach : Z := 19 + 2 + 2 + 6 + 1.
Definition base_reach (rep : path) : Z := 19 + 2 + 2 + p_alen rep + (3 + 5 + nhlen (p_nhk rep)) + 1.

Definition pack_mp (o : popt) (fam : Z) (l : list path) : list msg :=
  let ws := filter is_wd l in
  let ps := filter is_ann l in
  map (MUnreach fam) (split_mp o base_unreach ws)
  ++ flat_map (fun g => match g with [] => [] | rep :: _ => map (MReach rep) (split_mp o (base_reach rep) g) end)
              (groups same_attrs_nh ps)
  ++ (if existsb is_eor l then [MEor fam] else []).

Definition same_fam (a b : path) : bool := p_fam a =? p_fam b.

Definition create (o : popt) (l : list path) : list msg :=
  flat_map (fun g => match g with
                     | [] => []
                     | x :: _ => if p_fam x =? 1 then pack_v4 o g else pack_mp o (p_fam x) g
                     end)
           (groups same_fam (dedup_last l)).

(* ---- sizes as the wire codec produces them ---- *)
Fixpoint nlri_bytes (o : popt) (l : list path) : Z :=
  match l with [] => 0 | x :: r => p_nlen x + o_ap o + nlri_bytes o r end.
Definition attr_hdr (value_len : Z) : Z := if 255 <? value_len then 4 else 3.
Definition size (o : popt) (m : msg) : Z :=
  match m with
  | MW4 ws => 23 + nlri_bytes o ws
  | MU4 rep ns => 23 + p_alen rep + nlri_bytes o ns
  | MReach rep ns => let v := 5 + nhlen (p_nhk rep) + nlri_bytes o ns in 23 + p_alen rep + attr_hdr v + v
  | MUnreach _ ws => let v := 3 + nlri_bytes o ws in 23 + attr_hdr v + v
  | MEor fam => if fam =? 1 then 23 else 29
  end.

(* the single-route encoding of a route (what must fit for the equivalence claim) *)
Definition single_size (o : popt) (p : path) : Z :=
  if is_ann p then (if (p_fam p =? 1) && (p_nhk p =? 0) then size o (MU4 p [p]) else size o (MReach p [p]))
  else if is_wd p then (if p_fam p =? 1 then size o (MW4 [p]) else size o (MUnreach (p_fam p) [p]))
  else 0.
