(* C11 -- lemmas about Pack.Model *)
From Coq Require Import List ZArith Bool Lia Permutation Arith.
From Verif Require Import Pack.Model.
Import ListNotations.
Open Scope Z_scope.

Arguments Z.add : simpl never.
Arguments Z.sub : simpl never.
Arguments Z.mul : simpl never.
Arguments Z.quot : simpl never.
Arguments Z.ltb : simpl never.
Arguments Z.leb : simpl never.

(* ---------- generic list facts ---------- *)
Lemma filter_partition_perm {A} (p : A -> bool) l : Permutation (filter p l ++ filter (fun x => negb (p x)) l) l.
Proof.
  induction l as [|x l IH]; simpl; [constructor|]. destruct (p x); simpl.
  - now constructor.
  - eapply Permutation_trans; [apply Permutation_sym, Permutation_middle|]. now constructor.
Qed.

Lemma filter_length_le {A} (p : A -> bool) l : (length (filter p l) <= length l)%nat.
Proof. induction l as [|x l IH]; simpl; [lia|]. destruct (p x); simpl; lia. Qed.

(* ---------- group_by ---------- *)
Lemma group_by_perm eq : forall fuel l, (length l <= fuel)%nat -> Permutation (concat (group_by fuel eq l)) l.
Proof.
  induction fuel as [|f IH]; intros l Hl.
  - destruct l; [constructor|simpl in Hl; lia].
  - destruct l as [|x r]; [constructor|]. cbn [group_by concat]. simpl. constructor.
    eapply Permutation_trans; [|apply (filter_partition_perm (eq x) r)].
    apply Permutation_app_head. apply IH.
    simpl in Hl. pose proof (filter_length_le (fun y => negb (eq x y)) r). lia.
Qed.

Lemma groups_perm eq l : Permutation (concat (groups eq l)) l.
Proof. apply group_by_perm. lia. Qed.

Lemma group_by_spec eq : forall fuel l g, In g (group_by fuel eq l) ->
  exists x r, g = x :: r /\ (forall y, In y r -> eq x y = true) /\ (forall y, In y g -> In y l).
Proof.
  induction fuel as [|f IH]; intros l g Hg; [contradiction|].
  destruct l as [|x r]; [contradiction|]. cbn [group_by] in Hg. destruct Hg as [<-|Hg].
  - exists x, (filter (eq x) r). split; [reflexivity|]. split.
    + intros y Hy. apply filter_In in Hy. apply Hy.
    + intros y [<-|Hy]; [now left|right]. apply filter_In in Hy. apply Hy.
  - destruct (IH _ _ Hg) as (x' & r' & -> & H1 & H2). exists x', r'. split; [reflexivity|]. split; [assumption|].
    intros y Hy. right. specialize (H2 y Hy). apply filter_In in H2. apply H2.
Qed.

(* ---------- chunks ---------- *)
Lemma chunk_concat : forall fuel n l, (0 < n)%nat -> (length l <= fuel)%nat -> concat (chunk fuel n l) = l.
Proof.
  induction fuel as [|f IH]; intros n l Hn Hl.
  - destruct l; [reflexivity|simpl in Hl; lia].
  - destruct l as [|x r]; [reflexivity|]. cbn [chunk concat]. rewrite IH; auto.
    + apply firstn_skipn.
    + rewrite skipn_length. cbn [length] in *. lia.
Qed.

Lemma chunk_spec : forall fuel n l c, (0 < n)%nat -> In c (chunk fuel n l) ->
  c <> [] /\ (length c <= n)%nat /\ (forall y, In y c -> In y l).
Proof.
  induction fuel as [|f IH]; intros n l c Hn Hc; [contradiction|].
  destruct l as [|x r]; [contradiction|]. cbn [chunk] in Hc. destruct Hc as [<-|Hc].
  - split; [|split].
    + destruct n; [lia|]. simpl. discriminate.
    + apply firstn_le_length.
    + intros y Hy. eapply (In_nth_error) in Hy. destruct Hy as [k Hk].
      assert (In y (firstn n (x :: r))) by (eapply nth_error_In; eauto).
      rewrite <- (firstn_skipn n (x :: r)). apply in_or_app. now left.
  - destruct (IH _ _ _ Hn Hc) as (H1 & H2 & H3). split; [assumption|]. split; [assumption|].
    intros y Hy. rewrite <- (firstn_skipn n (x :: r)). apply in_or_app. right. auto.
Qed.

Lemma max_nlris_pos o alen : (0 < max_nlris o alen)%nat.
Proof.
  unfold max_nlris. set (q := Z.quot _ _). destruct (q <? 1) eqn:E; [simpl; lia|].
  apply Z.ltb_ge in E. lia.
Qed.

(* ---------- byte counting ---------- *)
Lemma nlri_bytes_app o a b : nlri_bytes o (a ++ b) = nlri_bytes o a + nlri_bytes o b.
Proof. induction a as [|x a IH]; simpl; [lia|]. rewrite IH. lia. Qed.

Lemma nlri_bytes_bound o c k : 0 <= o_ap o ->
  (forall y, In y c -> p_nlen y <= k) -> nlri_bytes o c <= Z.of_nat (length c) * (k + o_ap o).
Proof.
  intros Hap. induction c as [|x c IH]; intros H; simpl; [lia|].
  assert (p_nlen x <= k) by (apply H; now left). assert (nlri_bytes o c <= Z.of_nat (length c) * (k + o_ap o)) by (apply IH; intros; apply H; now right).
  lia.
Qed.

Lemma nlri_bytes_nonneg o c : 0 <= o_ap o -> (forall y, In y c -> 0 <= p_nlen y) -> 0 <= nlri_bytes o c.
Proof.
  intros Hap. induction c as [|x c IH]; intros H; simpl; [lia|].
  assert (0 <= p_nlen x) by (apply H; now left). assert (0 <= nlri_bytes o c) by (apply IH; intros; apply H; now right). lia.
Qed.

(* a chunk sized by max_nlris fits beside attributes of length alen, or holds a single route *)
Lemma chunk_fits o alen c : 0 <= o_ap o ->
  (length c <= max_nlris o alen)%nat -> (forall y, In y c -> p_nlen y <= 5) ->
  23 + alen + nlri_bytes o c <= o_limit o \/ (length c <= 1)%nat.
Proof.
  intros Hap Hlen Hn. unfold max_nlris in Hlen. set (q := Z.quot (o_limit o - (19 + 2 + 2 + alen)) (5 + o_ap o)) in *.
  destruct (q <? 1) eqn:E.
  - right. simpl in Hlen. lia.
  - left. apply Z.ltb_ge in E. pose proof (nlri_bytes_bound o c 5 Hap Hn).
    assert (Hq : q * (5 + o_ap o) <= o_limit o - (19 + 2 + 2 + alen)).
    { unfold q in *. set (num := o_limit o - (19 + 2 + 2 + alen)) in *. set (d := 5 + o_ap o) in *.
      assert (Hd : 0 < d) by (unfold d; lia).
      pose proof (Z.quot_rem' num d) as Hqr.
      destruct (Z_lt_le_dec num 0) as [Hneg|Hpos].
      - pose proof (Z.rem_bound_pos_neg num d Hd (ltac:(lia))). nia.
      - pose proof (Z.rem_bound_pos num d Hpos Hd). nia. }
    assert (Z.of_nat (length c) <= q) by lia.
    assert (Z.of_nat (length c) * (5 + o_ap o) <= q * (5 + o_ap o)) by (apply Z.mul_le_mono_nonneg_r; lia).
    lia.
Qed.

(* ---------- take_budget / split_budget ---------- *)
Lemma take_budget_spec o budget : forall l used first a b,
  used <= budget ->
  take_budget o budget used first l = (a, b) ->
  l = a ++ b /\ (first = true -> l <> [] -> a <> []) /\
  (used + nlri_bytes o a <= budget \/ (first = true /\ (length a <= 1)%nat)).
Proof.
  induction l as [|x r IH]; intros used first a b Hu H.
  - simpl in H. injection H as <- <-. split; [reflexivity|]. split; [congruence|]. left. simpl. lia.
  - cbn [take_budget] in H.
    destruct (negb first && (budget <? used + (p_nlen x + o_ap o))) eqn:E1.
    + injection H as <- <-. apply andb_true_iff in E1. destruct E1 as [E1 _]. apply negb_true_iff in E1.
      split; [reflexivity|]. split; [intros ->; discriminate|]. left. simpl. lia.
    + destruct (budget <=? used + (p_nlen x + o_ap o)) eqn:E2.
      * injection H as <- <-. split; [reflexivity|]. split; [discriminate|].
        apply Z.leb_le in E2. destruct first.
        -- right. split; [reflexivity|simpl; lia].
        -- left. simpl in E1. apply Z.ltb_ge in E1. simpl. lia.
      * destruct (take_budget o budget (used + (p_nlen x + o_ap o)) false r) as [a' b'] eqn:Er.
        injection H as <- <-. apply Z.leb_gt in E2.
        assert (Hu' : used + (p_nlen x + o_ap o) <= budget) by lia.
        destruct (IH _ _ _ _ Hu' Er) as (H1 & _ & H3).
        split; [simpl; now f_equal|]. split; [discriminate|].
        destruct H3 as [H3|[H3 _]]; [|discriminate]. left. simpl. lia.
Qed.

Lemma split_budget_spec o budget : 0 <= budget -> forall fuel l, (length l <= fuel)%nat ->
  concat (split_budget fuel o budget l) = l /\
  forall c, In c (split_budget fuel o budget l) ->
    c <> [] /\ (forall y, In y c -> In y l) /\ (nlri_bytes o c <= budget \/ (length c <= 1)%nat).
Proof.
  intros Hb. induction fuel as [|f IH]; intros l Hl.
  - destruct l; [|simpl in Hl; lia]. split; [reflexivity|intros c []].
  - destruct l as [|x r]; [split; [reflexivity|intros c []]|].
    cbn [split_budget]. destruct (take_budget o budget 0 true (x :: r)) as [a b] eqn:E.
    destruct (take_budget_spec o budget _ _ _ _ _ Hb E) as (H1 & H2 & H3).
    assert (Ha : a <> []) by (apply H2; [reflexivity|discriminate]).
    assert (Hlen : (length b <= f)%nat).
    { assert (length (x :: r) = length a + length b)%nat by (rewrite H1; apply app_length).
      destruct a; [congruence|]. simpl in *. lia. }
    destruct (IH b Hlen) as [IH1 IH2]. split.
    + cbn [concat]. rewrite IH1. now rewrite <- H1.
    + intros c [<-|Hc].
      * split; [assumption|]. split; [intros y Hy; rewrite H1; apply in_or_app; now left|].
        destruct H3 as [H3|[_ H3]]; [left; lia|right; assumption].
      * destruct (IH2 c Hc) as (A & B & C). split; [assumption|]. split; [|assumption].
        intros y Hy. rewrite H1. apply in_or_app. right. auto.
Qed.

Lemma split_mp_spec o base l :
  concat (split_mp o base l) = l /\
  forall c, In c (split_mp o base l) ->
    c <> [] /\ (forall y, In y c -> In y l) /\ (base + nlri_bytes o c <= o_limit o \/ (length c <= 1)%nat).
Proof.
  unfold split_mp. destruct (o_limit o - base <=? 0) eqn:E.
  - split.
    + induction l as [|x l IH]; simpl; [reflexivity|]. now f_equal.
    + intros c Hc. apply in_map_iff in Hc. destruct Hc as (p & <- & Hp). split; [discriminate|].
      split; [intros y [<-|[]]; assumption|]. right. simpl. lia.
  - apply Z.leb_gt in E. destruct (split_budget_spec o (o_limit o - base) (ltac:(lia)) (length l) l (le_n _)) as [H1 H2].
    split; [assumption|]. intros c Hc. destruct (H2 c Hc) as (A & B & C). split; [assumption|]. split; [assumption|].
    destruct C as [C|C]; [left; lia|right; assumption].
Qed.

(* ---------- the theorems ---------- *)
Definition carried (m : msg) : list path :=
  match m with MW4 ws => ws | MU4 _ ns => ns | MReach _ ns => ns | MUnreach _ ws => ws | MEor _ => [] end.

Definition wf_paths (o : popt) (l : list path) : Prop :=
  0 <= o_ap o /\ 29 <= o_limit o /\ forall p, In p l -> 0 <= p_nlen p /\ (p_fam p = 1 -> p_nlen p <= 5).

Lemma dedup_last_incl l x : In x (dedup_last l) -> In x l.
Proof.
  induction l as [|y l IH]; simpl; [auto|]. destruct (is_eor y).
  - intros [<-|H]; auto.
  - destruct (existsb _ l); [auto|]. intros [<-|H]; auto.
Qed.

Lemma dedup_last_eor l x : In x l -> is_eor x = true -> In x (dedup_last l).
Proof.
  induction l as [|y l IH]; simpl; [auto|]. intros [<-|H] He.
  - rewrite He. now left.
  - destruct (is_eor y); [right; auto|]. destruct (existsb _ l); [auto|right; auto].
Qed.

Lemma in_groups eq l g : In g (groups eq l) ->
  exists x r, g = x :: r /\ (forall y, In y r -> eq x y = true) /\ (forall y, In y g -> In y l).
Proof. apply group_by_spec. Qed.

Lemma in_chunks n l c : (0 < n)%nat -> In c (chunks n l) ->
  c <> [] /\ (length c <= n)%nat /\ (forall y, In y c -> In y l).
Proof. apply chunk_spec. Qed.

Lemma chunks_concat n l : (0 < n)%nat -> concat (chunks n l) = l.
Proof. intros. apply chunk_concat; auto. Qed.

Lemma attr_hdr_le v : attr_hdr v <= 4.
Proof. unfold attr_hdr. destruct (255 <? v); lia. Qed.

Lemma same_fam_eq a b : same_fam a b = true -> p_fam b = p_fam a.
Proof. unfold same_fam. intros H. apply Z.eqb_eq in H. auto. Qed.

Definition fits_or_single (o : popt) (m : msg) : Prop :=
  size o m <= o_limit o \/ (length (carried m) <= 1)%nat.

Lemma pack_v4_size o g : 0 <= o_ap o -> 29 <= o_limit o ->
  (forall p, In p g -> 0 <= p_nlen p /\ p_nlen p <= 5) ->
  forall m, In m (pack_v4 o g) -> fits_or_single o m.
Proof.
  intros Hap Hlim Hn m Hm. unfold pack_v4 in Hm. rewrite !in_app_iff in Hm.
  destruct Hm as [Hm|[Hm|[Hm|Hm]]].
  - apply in_map_iff in Hm. destruct Hm as (c & <- & Hc).
    destruct (in_chunks _ _ _ (max_nlris_pos o 0) Hc) as (_ & Hlen & Hin).
    unfold fits_or_single. cbn [size carried].
    destruct (chunk_fits o 0 c Hap Hlen) as [H|H]; [|lia|auto].
    intros y Hy. specialize (Hin y Hy). apply filter_In in Hin. apply Hn, Hin.
  - apply in_flat_map in Hm. destruct Hm as (g' & Hg' & Hm).
    destruct (in_groups _ _ _ Hg') as (rep & r & -> & _ & Hin').
    apply in_map_iff in Hm. destruct Hm as (c & <- & Hc).
    destruct (in_chunks _ _ _ (max_nlris_pos o (p_alen rep)) Hc) as (_ & Hlen & Hin).
    unfold fits_or_single. cbn [size carried].
    destruct (chunk_fits o (p_alen rep) c Hap Hlen) as [H|H]; [|lia|auto].
    intros y Hy. specialize (Hin' y (Hin y Hy)). apply filter_In in Hin'. apply Hn, Hin'.
  - apply in_map_iff in Hm. destruct Hm as (p & <- & _). right. simpl. lia.
  - destruct (existsb is_eor g); [|contradiction]. destruct Hm as [<-|[]]. left. simpl. lia.
Qed.

Lemma pack_mp_size o fam g : 0 <= o_ap o -> 29 <= o_limit o ->
  (forall p, In p g -> 0 <= p_nlen p) ->
  forall m, In m (pack_mp o fam g) -> fits_or_single o m.
Proof.
  intros Hap Hlim Hn m Hm. unfold pack_mp in Hm. rewrite !in_app_iff in Hm.
  destruct Hm as [Hm|[Hm|Hm]].
  - apply in_map_iff in Hm. destruct Hm as (c & <- & Hc).
    destruct (split_mp_spec o base_unreach (filter is_wd g)) as [_ Hs]. destruct (Hs c Hc) as (_ & _ & [H|H]); [left|right; auto].
    cbn [size]. pose proof (attr_hdr_le (3 + nlri_bytes o c)). unfold base_unreach in H. lia.
  - apply in_flat_map in Hm. destruct Hm as (g' & Hg' & Hm).
    destruct (in_groups _ _ _ Hg') as (rep & r & -> & _ & _).
    apply in_map_iff in Hm. destruct Hm as (c & <- & Hc).
    destruct (split_mp_spec o (base_reach rep) (rep :: r)) as [_ Hs]. destruct (Hs c Hc) as (_ & _ & [H|H]); [left|right; auto].
    cbn [size]. pose proof (attr_hdr_le (5 + nhlen (p_nhk rep) + nlri_bytes o c)). unfold base_reach in H. lia.
  - destruct (existsb is_eor g); [|contradiction]. destruct Hm as [<-|[]]. left. simpl. destruct (fam =? 1); lia.
Qed.

Lemma in_create o l m : In m (create o l) ->
  exists x r, In (x :: r) (groups same_fam (dedup_last l)) /\
              In m (if p_fam x =? 1 then pack_v4 o (x :: r) else pack_mp o (p_fam x) (x :: r)).
Proof.
  unfold create. intros H. apply in_flat_map in H. destruct H as (g & Hg & Hm).
  destruct g as [|x r]; [contradiction|]. eauto.
Qed.

(* Every emitted message fits the session limit, or carries a single route (whose own encoding is what
   does not fit: it is then refused by Serialize in the send loop, the others are unaffected). *)
Theorem size_ok o l : wf_paths o l -> forall m, In m (create o l) -> fits_or_single o m.
Proof.
  intros (Hap & Hlim & Hn) m Hm. destruct (in_create o l m Hm) as (x & r & Hg & Hp).
  destruct (in_groups _ _ _ Hg) as (x' & r' & E & Hsame & Hin). injection E as <- <-.
  assert (Hl : forall p, In p (x :: r) -> In p l) by (intros p Hp'; apply dedup_last_incl, Hin, Hp').
  destruct (p_fam x =? 1) eqn:Ef.
  - apply Z.eqb_eq in Ef. apply (pack_v4_size o (x :: r)); auto.
    intros p Hp'. destruct (Hn p (Hl p Hp')) as [A B]. split; [assumption|]. apply B.
    destruct Hp' as [<-|Hp']; [assumption|]. rewrite (same_fam_eq x p (Hsame p Hp')). assumption.
  - apply (pack_mp_size o (p_fam x) (x :: r)); auto. intros p Hp'. apply (Hn p (Hl p Hp')).
Qed.

Corollary all_fit o l : wf_paths o l ->
  (forall m, In m (create o l) -> (length (carried m) <= 1)%nat -> size o m <= o_limit o) ->
  forall m, In m (create o l) -> size o m <= o_limit o.
Proof. intros Hwf Hs m Hm. destruct (size_ok o l Hwf m Hm) as [H|H]; auto. Qed.

(* Routes share a message only with equal attribute bytes and equal next hops, and sit in the right kind
   of message. *)
Definition msg_coherent (m : msg) : Prop :=
  match m with
  | MW4 ws => forall p, In p ws -> is_wd p = true /\ p_fam p = 1
  | MU4 rep ns => forall p, In p ns -> is_ann p = true /\ p_fam p = 1 /\ p_attrs p = p_attrs rep /\ p_nhk p = 0 /\ p_nhk rep = 0
  | MReach rep ns => forall p, In p ns -> is_ann p = true /\ p_fam p = p_fam rep /\ p_attrs p = p_attrs rep /\ p_nhk p = p_nhk rep
  | MUnreach fam ws => fam <> 1 /\ forall p, In p ws -> is_wd p = true /\ p_fam p = fam
  | MEor _ => True
  end.

Theorem share_only_equal o l : forall m, In m (create o l) -> msg_coherent m.
Proof.
  intros m Hm. destruct (in_create o l m Hm) as (x & r & Hg & Hp).
  destruct (in_groups _ _ _ Hg) as (x' & r' & E & Hsame & _). injection E as <- <-.
  assert (Hfam : forall p, In p (x :: r) -> p_fam p = p_fam x).
  { intros p [<-|Hp']; [reflexivity|]. apply same_fam_eq. auto. }
  destruct (p_fam x =? 1) eqn:Ef.
  - apply Z.eqb_eq in Ef. unfold pack_v4 in Hp. rewrite !in_app_iff in Hp. destruct Hp as [Hp|[Hp|[Hp|Hp]]].
    + apply in_map_iff in Hp. destruct Hp as (c & <- & Hc).
      destruct (in_chunks _ _ _ (max_nlris_pos o 0) Hc) as (_ & _ & Hin).
      intros p Hp. specialize (Hin p Hp). apply filter_In in Hin. destruct Hin as [Hin Hw]. split; [assumption|].
      rewrite (Hfam p Hin). assumption.
    + apply in_flat_map in Hp. destruct Hp as (g' & Hg' & Hp).
      destruct (in_groups _ _ _ Hg') as (rep & r2 & -> & Hsame2 & Hin2).
      apply in_map_iff in Hp. destruct Hp as (c & <- & Hc).
      destruct (in_chunks _ _ _ (max_nlris_pos o (p_alen rep)) Hc) as (_ & _ & Hin).
      assert (Hrep : In rep (filter (fun p => is_ann p && (p_nhk p =? 0)) (x :: r))) by (apply Hin2; now left).
      apply filter_In in Hrep. destruct Hrep as [_ Hrep]. apply andb_true_iff in Hrep. destruct Hrep as [_ Hrep]. apply Z.eqb_eq in Hrep.
      intros p Hp. specialize (Hin p Hp). pose proof (Hin2 p Hin) as Hf. apply filter_In in Hf. destruct Hf as [Hf Hk].
      apply andb_true_iff in Hk. destruct Hk as [Hk1 Hk2]. apply Z.eqb_eq in Hk2.
      split; [assumption|]. split; [rewrite (Hfam p Hf); assumption|]. split; [|split; assumption].
      destruct Hin as [<-|Hin]; [reflexivity|]. specialize (Hsame2 p Hin). unfold same_attrs in Hsame2. apply Z.eqb_eq in Hsame2. auto.
    + apply in_map_iff in Hp. destruct Hp as (p & <- & Hp). apply filter_In in Hp. destruct Hp as [Hp Hk].
      apply andb_true_iff in Hk. destruct Hk as [Hk _]. intros q [<-|[]]. auto.
    + destruct (existsb is_eor (x :: r)); [|contradiction]. destruct Hp as [<-|[]]. exact I.
  - apply Z.eqb_neq in Ef. unfold pack_mp in Hp. rewrite !in_app_iff in Hp. destruct Hp as [Hp|[Hp|Hp]].
    + apply in_map_iff in Hp. destruct Hp as (c & <- & Hc).
      destruct (split_mp_spec o base_unreach (filter is_wd (x :: r))) as [_ Hs]. destruct (Hs c Hc) as (_ & Hin & _).
      split; [assumption|]. intros p Hp. specialize (Hin p Hp). apply filter_In in Hin. destruct Hin as [Hin Hw]. auto.
    + apply in_flat_map in Hp. destruct Hp as (g' & Hg' & Hp).
      destruct (in_groups _ _ _ Hg') as (rep & r2 & -> & Hsame2 & Hin2).
      apply in_map_iff in Hp. destruct Hp as (c & <- & Hc).
      destruct (split_mp_spec o (base_reach rep) (rep :: r2)) as [_ Hs]. destruct (Hs c Hc) as (_ & Hin & _).
      assert (Hrep : In rep (x :: r)) by (assert (In rep (filter is_ann (x :: r))) by (apply Hin2; now left); apply filter_In in H; apply H).
      intros p Hp. specialize (Hin p Hp). pose proof (Hin2 p Hin) as Hf. apply filter_In in Hf. destruct Hf as [Hf Hk].
      split; [assumption|]. split; [rewrite (Hfam p Hf), (Hfam rep Hrep); reflexivity|].
      destruct Hin as [<-|Hin]; [split; reflexivity|]. specialize (Hsame2 p Hin). unfold same_attrs_nh in Hsame2.
      apply andb_true_iff in Hsame2. destruct Hsame2 as [A B]. apply Z.eqb_eq in A, B. auto.
    + destruct (existsb is_eor (x :: r)); [|contradiction]. destruct Hp as [<-|[]]. exact I.
Qed.

(* ---------- nothing lost, nothing duplicated ---------- *)
Definition not_eor (p : path) : bool := negb (is_eor p).

Lemma flat_map_concat_map {A B} (f : A -> list B) l : flat_map f l = concat (map f l).
Proof. induction l as [|x l IH]; simpl; [reflexivity|]. now rewrite IH. Qed.

Lemma flat_map_flat_map {A B C} (f : A -> list B) (g : B -> list C) l :
  flat_map g (flat_map f l) = flat_map (fun x => flat_map g (f x)) l.
Proof. induction l as [|x l IH]; simpl; [reflexivity|]. now rewrite flat_map_app, IH. Qed.

Lemma flat_map_map {A B C} (f : A -> B) (g : B -> list C) l : flat_map g (map f l) = flat_map (fun x => g (f x)) l.
Proof. induction l as [|x l IH]; simpl; [reflexivity|]. now rewrite IH. Qed.

Lemma flat_map_id_concat {A} (l : list (list A)) : flat_map (fun c => c) l = concat l.
Proof. induction l as [|x l IH]; simpl; [reflexivity|]. now rewrite IH. Qed.

Lemma flat_map_perm {A B} (f g : A -> list B) l :
  (forall x, In x l -> Permutation (f x) (g x)) -> Permutation (flat_map f l) (flat_map g l).
Proof.
  induction l as [|x l IH]; intros H; simpl; [constructor|].
  apply Permutation_app; [apply H; now left|apply IH; intros; apply H; now right].
Qed.

Lemma filter_concat {A} (p : A -> bool) l : filter p (concat l) = flat_map (filter p) l.
Proof. induction l as [|x l IH]; simpl; [reflexivity|]. now rewrite filter_app, IH. Qed.

Lemma Permutation_filter {A} (p : A -> bool) l1 l2 : Permutation l1 l2 -> Permutation (filter p l1) (filter p l2).
Proof.
  induction 1; simpl; auto.
  - destruct (p x); auto.
  - destruct (p x), (p y); auto. apply perm_swap.
  - eapply Permutation_trans; eauto.
Qed.

(* the three kinds of entries of a family partition its non-EOR entries *)
Lemma kinds_partition g :
  Permutation (filter is_wd g ++ filter (fun p => is_ann p && (p_nhk p =? 0)) g ++ filter (fun p => is_ann p && negb (p_nhk p =? 0)) g)
              (filter not_eor g).
Proof.
  induction g as [|x g IH]; simpl; [constructor|].
  unfold is_ann, not_eor at 1. destruct (is_wd x) eqn:Ew, (is_eor x) eqn:Ee; cbn [negb andb].
  - unfold is_wd, is_eor in *. apply Z.eqb_eq in Ew, Ee. congruence.
  - simpl. constructor. exact IH.
  - exact IH.
  - destruct (p_nhk x =? 0); cbn [negb].
    + eapply Permutation_trans; [apply Permutation_sym, Permutation_middle|]. constructor. exact IH.
    + rewrite app_assoc. apply Permutation_sym, Permutation_cons_app. rewrite <- app_assoc.
      apply Permutation_sym. exact IH.
Qed.

Lemma kinds_partition_mp g : Permutation (filter is_wd g ++ filter is_ann g) (filter not_eor g).
Proof.
  induction g as [|x g IH]; simpl; [constructor|].
  unfold is_ann, not_eor at 1. destruct (is_wd x) eqn:Ew, (is_eor x) eqn:Ee; cbn [negb andb].
  - unfold is_wd, is_eor in *. apply Z.eqb_eq in Ew, Ee. congruence.
  - simpl. constructor. exact IH.
  - exact IH.
  - eapply Permutation_trans; [apply Permutation_sym, Permutation_middle|]. constructor. exact IH.
Qed.

Lemma carried_eor fam g : flat_map carried (if existsb is_eor g then [MEor fam] else []) = [].
Proof. destruct (existsb is_eor g); reflexivity. Qed.

Lemma carried_pack_v4 o g : Permutation (flat_map carried (pack_v4 o g)) (filter not_eor g).
Proof.
  unfold pack_v4. rewrite !flat_map_app, carried_eor, app_nil_r.
  eapply Permutation_trans; [|apply kinds_partition].
  apply Permutation_app; [|apply Permutation_app].
  - rewrite flat_map_map. cbn [carried]. rewrite flat_map_id_concat, chunks_concat by apply max_nlris_pos. apply Permutation_refl.
  - rewrite flat_map_flat_map.
    eapply Permutation_trans; [|apply (groups_perm same_attrs)].
    rewrite <- flat_map_id_concat. apply flat_map_perm. intros g' Hg'.
    destruct (in_groups _ _ _ Hg') as (rep & r & -> & _ & _).
    rewrite flat_map_map. cbn [carried]. rewrite flat_map_id_concat, chunks_concat by apply max_nlris_pos. apply Permutation_refl.
  - rewrite flat_map_map. cbn [carried].
    induction (filter (fun p => is_ann p && negb (p_nhk p =? 0)) g) as [|y t IHt]; simpl; [constructor|now constructor].
Qed.

Lemma carried_pack_mp o fam g : Permutation (flat_map carried (pack_mp o fam g)) (filter not_eor g).
Proof.
  unfold pack_mp. rewrite !flat_map_app, carried_eor, app_nil_r.
  eapply Permutation_trans; [|apply kinds_partition_mp].
  apply Permutation_app.
  - rewrite flat_map_map. cbn [carried]. rewrite flat_map_id_concat.
    destruct (split_mp_spec o base_unreach (filter is_wd g)) as [H _]. rewrite H. apply Permutation_refl.
  - rewrite flat_map_flat_map.
    eapply Permutation_trans; [|apply (groups_perm same_attrs_nh)].
    rewrite <- flat_map_id_concat. apply flat_map_perm. intros g' Hg'.
    destruct (in_groups _ _ _ Hg') as (rep & r & -> & _ & _).
    rewrite flat_map_map. cbn [carried]. rewrite flat_map_id_concat.
    destruct (split_mp_spec o (base_reach rep) (rep :: r)) as [H _]. rewrite H. apply Permutation_refl.
Qed.

(* The routes carried by the emitted messages are, as a multiset, exactly the de-duplicated changes:
   nothing is lost and nothing is emitted twice -- for every list, limit and ADD-PATH setting (the hash
   functions and map orders of the implementation can only permute the messages). *)
Theorem carried_perm o l : Permutation (flat_map carried (create o l)) (filter not_eor (dedup_last l)).
Proof.
  unfold create. rewrite flat_map_flat_map.
  eapply Permutation_trans; [|apply Permutation_filter, (groups_perm same_fam)].
  rewrite filter_concat. apply flat_map_perm. intros g Hg.
  destruct (in_groups _ _ _ Hg) as (x & r & -> & _ & _).
  destruct (p_fam x =? 1); [apply carried_pack_v4|apply carried_pack_mp].
Qed.

(* last action per (family, prefix, path id) wins *)
Theorem dedup_last_spec l x : is_eor x = false ->
  (In x (dedup_last l) <->
   exists l1 l2, l = l1 ++ x :: l2 /\ forall y, In y l2 -> is_eor y = true \/ same_key x y = false).
Proof.
  intros Hx. induction l as [|z l IH]; simpl.
  - split; [intros []|]. intros (l1 & l2 & H & _). destruct l1; discriminate.
  - destruct (is_eor z) eqn:Ez.
    + split.
      * intros [->|H]; [congruence|]. apply IH in H. destruct H as (l1 & l2 & -> & H). exists (z :: l1), l2. auto.
      * intros (l1 & l2 & H & Hl2). destruct l1 as [|w l1]; simpl in H; injection H as -> ->; [congruence|].
        right. apply IH. eauto.
    + destruct (existsb (fun y => negb (is_eor y) && same_key z y) l) eqn:Ex.
      * split.
        -- intros H. apply IH in H. destruct H as (l1 & l2 & -> & H). exists (z :: l1), l2. auto.
        -- intros (l1 & l2 & H & Hl2). destruct l1 as [|w l1]; simpl in H; injection H as -> ->.
           ++ exfalso. apply existsb_exists in Ex. destruct Ex as (y & Hy & E). apply andb_true_iff in E. destruct E as [E1 E2].
              apply negb_true_iff in E1. destruct (Hl2 y Hy); congruence.
           ++ apply IH. eauto.
      * split.
        -- intros [->|H].
           ++ exists [], l. split; [reflexivity|]. intros y Hy.
              destruct (is_eor y) eqn:Ey; [now left|right]. destruct (same_key x y) eqn:Ek; [|reflexivity].
              assert (existsb (fun y => negb (is_eor y) && same_key x y) l = true) by (apply existsb_exists; exists y; rewrite Ey, Ek; auto). congruence.
           ++ apply IH in H. destruct H as (l1 & l2 & -> & H). exists (z :: l1), l2. auto.
        -- intros (l1 & l2 & H & Hl2). destruct l1 as [|w l1]; simpl in H; injection H as -> ->; [now left|].
           right. apply IH. eauto.
Qed.

(* End-of-RIB markers are kept (one per family) *)
Theorem eor_kept o l f : In (MEor f) (create o l) <-> exists p, In p l /\ is_eor p = true /\ p_fam p = f.
Proof.
  split.
  - intros Hm. destruct (in_create o l _ Hm) as (x & r & Hg & Hp).
    destruct (in_groups _ _ _ Hg) as (x' & r' & E & Hsame & Hin). injection E as <- <-.
    assert (Hfam : forall p, In p (x :: r) -> p_fam p = p_fam x).
    { intros p [<-|Hp']; [reflexivity|]. apply same_fam_eq. auto. }
    assert (He : existsb is_eor (x :: r) = true /\ f = p_fam x).
    { destruct (p_fam x =? 1) eqn:Ef.
      - apply Z.eqb_eq in Ef. unfold pack_v4 in Hp. rewrite !in_app_iff in Hp. destruct Hp as [Hp|[Hp|[Hp|Hp]]].
        + apply in_map_iff in Hp. destruct Hp as (? & ? & _). discriminate.
        + apply in_flat_map in Hp. destruct Hp as (g' & _ & Hp). destruct g'; [contradiction|]. apply in_map_iff in Hp. destruct Hp as (? & ? & _). discriminate.
        + apply in_map_iff in Hp. destruct Hp as (? & ? & _). discriminate.
        + destruct (existsb is_eor (x :: r)); [|contradiction]. destruct Hp as [H|[]]. injection H as <-. auto.
      - unfold pack_mp in Hp. rewrite !in_app_iff in Hp. destruct Hp as [Hp|[Hp|Hp]].
        + apply in_map_iff in Hp. destruct Hp as (? & ? & _). discriminate.
        + apply in_flat_map in Hp. destruct Hp as (g' & _ & Hp). destruct g'; [contradiction|]. apply in_map_iff in Hp. destruct Hp as (? & ? & _). discriminate.
        + destruct (existsb is_eor (x :: r)); [|contradiction]. destruct Hp as [H|[]]. injection H as <-. auto. }
    destruct He as [He ->]. apply existsb_exists in He. destruct He as (p & Hp' & Hpe). exists p. split; [|split; auto].
    apply dedup_last_incl, Hin, Hp'.
  - intros (p & Hp & He & Hf).
    assert (Hd : In p (concat (groups same_fam (dedup_last l)))).
    { eapply Permutation_in; [apply Permutation_sym, groups_perm|]. now apply dedup_last_eor. }
    apply in_concat in Hd. destruct Hd as (g & Hg & Hpg).
    destruct (in_groups _ _ _ Hg) as (x & r & -> & Hsame & _).
    assert (p_fam p = p_fam x) by (destruct Hpg as [<-|Hpg]; [reflexivity|apply same_fam_eq; auto]).
    unfold create. apply in_flat_map. exists (x :: r). split; [assumption|].
    assert (Hex : existsb is_eor (x :: r) = true) by (apply existsb_exists; eauto).
    destruct (p_fam x =? 1) eqn:Ef.
    + apply Z.eqb_eq in Ef. unfold pack_v4. rewrite !in_app_iff. right; right; right. rewrite Hex. left. congruence.
    + unfold pack_mp. rewrite !in_app_iff. right; right. rewrite Hex. left. congruence.
Qed.
