"""bin/check --setup : build everything from files on disk (offline)."""
import os, sys, time
from . import core


GENERATED = [("c01", "C01Atomic"), ("c03", "C03Chain"), ("c06", "C06Table"), ("c20", "C20Clean"), ("c20locks", "C20Locks"), ("c17idx", "C17Idx")]


def harness_names():
    root = os.path.join(core.VERIF, "go", "overlay", "internal", "verif")
    out = []
    for n in sorted(os.listdir(root)):
        d = os.path.join(root, n)
        if os.path.isdir(d) and any(f == "main.go" for f in os.listdir(d)):
            out.append((n, False))
        elif os.path.isdir(d) and any(f.endswith("_test.go") for f in os.listdir(d)) and n != "sx":
            out.append((n, True))
    return out


def model_names():
    root = os.path.join(core.VERIF, "ocaml")
    return sorted(n for n in os.listdir(root) if os.path.exists(os.path.join(root, n, "driver.ml")))


def main():
    t0 = time.time()
    rc = 0
    for what, vname in GENERATED:
        ok, changed, log = core.generate(what, vname)
        print("[setup] generate %s: %s" % (vname, "ok" if ok else "FAILED " + log), flush=True)
        if not ok:
            rc = 1
    ok, out, cmd = core.coq_make()
    print("[setup] coq build:", "ok" if ok else "FAILED", "%.0fs" % (time.time() - t0), flush=True)
    if not ok:
        print(out[-4000:])
        rc = 1
    for n in model_names():
        ok, log, _ = core.ocaml_build(n)
        print("[setup] model %s: %s" % (n, "ok" if ok else "FAILED"), flush=True)
        if not ok:
            print(log[-3000:])
            rc = 1
    for n, is_test in harness_names():
        ok, log, _ = core.go_build(n, test=is_test)
        print("[setup] harness %s: %s" % (n, "ok" if ok else "FAILED"), flush=True)
        if not ok:
            print(log[-3000:])
            rc = 1
    print("[setup] done in %.0fs rc=%d" % (time.time() - t0, rc), flush=True)
    return rc
