"""Shared machinery of /verif/bin/check (python3 stdlib only).

Stages (DESIGN.md 2.4):  A proof  B translator  C correspondence  D direct oracle  E search.
A check module (checks/cXX.py) defines run(ctx) and uses the helpers below.
"""
import fcntl, hashlib, json, os, random, re, shutil, subprocess, sys, time

VERIF = os.path.dirname(os.path.dirname(os.path.dirname(os.path.abspath(__file__))))
REPO = os.environ.get("VERIF_REPO", "/repo")
BUILD = os.path.join(VERIF, "build")
COQ = os.path.join(VERIF, "coq")
BIN = os.path.join(BUILD, "bin")
NPROC = os.cpu_count() or 4


def goenv():
    e = dict(os.environ)
    e["GOFLAGS"] = "-mod=mod"
    e["GOPROXY"] = "off"
    # the repo needs the cached go1.25.0 toolchain, selected only by the automatic switch
    e.pop("GOTOOLCHAIN", None)
    e.pop("GOSUMDB", None)
    e["GOMAXPROCS"] = e.get("GOMAXPROCS", str(NPROC))
    return e


def sh(cmd, cwd=None, timeout=1800, env=None, inp=None):
    """Run a command; return (rc, combined output). Never raises on failure."""
    t0 = time.time()
    try:
        p = subprocess.run(cmd, cwd=cwd, env=env, input=inp, stdout=subprocess.PIPE,
                           stderr=subprocess.STDOUT, timeout=timeout, shell=isinstance(cmd, str),
                           text=True, errors="replace")
        return p.returncode, p.stdout
    except subprocess.TimeoutExpired as ex:
        out = ex.stdout or ""
        if isinstance(out, bytes):
            out = out.decode(errors="replace")
        return 124, out + "\n[timeout after %.0fs]" % (time.time() - t0)


class Lock:
    """Cross-process lock (several checks may run concurrently)."""

    def __init__(self, name):
        os.makedirs(BUILD, exist_ok=True)
        self.path = os.path.join(BUILD, "." + name + ".lock")

    def __enter__(self):
        self.f = open(self.path, "w")
        fcntl.flock(self.f, fcntl.LOCK_EX)
        return self

    def __exit__(self, *a):
        fcntl.flock(self.f, fcntl.LOCK_UN)
        self.f.close()


def file_hash(paths):
    h = hashlib.sha256()
    for p in sorted(paths):
        h.update(p.encode())
        try:
            with open(p, "rb") as f:
                h.update(f.read())
        except OSError:
            h.update(b"<missing>")
    return h.hexdigest()


def walk(root, suffixes):
    out = []
    for d, _, fs in os.walk(root):
        for f in fs:
            if f.endswith(suffixes):
                out.append(os.path.join(d, f))
    return sorted(out)


# ----------------------------------------------------------------------------- Go

def write_overlay():
    root = os.path.join(VERIF, "go", "overlay")
    m = {}
    for p in walk(root, (".go",)):
        m[os.path.join(REPO, os.path.relpath(p, root))] = p
    os.makedirs(BUILD, exist_ok=True)
    path = os.path.join(BUILD, "overlay.json")
    data = json.dumps({"Replace": m}, indent=1, sort_keys=True)
    old = open(path).read() if os.path.exists(path) else None
    if old != data:
        with open(path, "w") as f:
            f.write(data)
    return path


def go_build(name, race=False, test=False):
    """Build harness ./internal/verif/<name> from /repo's CURRENT working tree with the
    verif tag and the add-only overlay. Returns (ok, log, binary)."""
    ov = write_overlay()
    out = os.path.join(BIN, name + ("_race" if race else ""))
    os.makedirs(BIN, exist_ok=True)
    if test:
        cmd = ["go", "test", "-c", "-vet=off", "-tags", "verif", "-overlay", ov, "-o", out, "./internal/verif/" + name]
    else:
        cmd = ["go", "build", "-tags", "verif", "-overlay", ov, "-o", out, "./internal/verif/" + name]
    if race:
        cmd.insert(2, "-race")
    with Lock("go-" + name):
        rc, log = sh(cmd, cwd=REPO, env=goenv(), timeout=1500)
    return rc == 0, log, out


# ----------------------------------------------------------------------------- Coq / OCaml

AUDIT_RE = re.compile(
    r"\b(Admitted|admit|Axiom|Axioms|Parameter|Parameters|Conjecture|Conjectures|Hypothesis|Hypotheses|Variable|Variables|"
    r"Admit Obligations|Unset Guard Checking|Unset Positivity Checking|Unset Universe Checking|bypass_check|"
    r"type-in-type|impredicative-set|native_compute)\b")


def strip_comments(src):
    out, depth, i = [], 0, 0
    while i < len(src):
        if src.startswith("(*", i):
            depth += 1
            i += 2
        elif src.startswith("*)", i) and depth > 0:
            depth -= 1
            i += 2
        else:
            if depth == 0:
                out.append(src[i])
            elif src[i] == "\n":
                out.append("\n")
            i += 1
    return "".join(out)


def coq_audit():
    """Forbidden constructs anywhere in the development (comments stripped).
    Variable/Hypothesis are allowed only inside a Section."""
    bad = []
    for p in walk(os.path.join(COQ, "theories"), (".v",)) + walk(os.path.join(COQ, "extract"), (".v",)):
        src = strip_comments(open(p).read())
        depth = 0
        for ln, line in enumerate(src.split("\n"), 1):
            if re.match(r"\s*Section\b", line):
                depth += 1
            if re.match(r"\s*End\b", line) and depth > 0:
                # may also close a Module; good enough: Module bodies rarely hold Variables
                depth -= 1
            for m in AUDIT_RE.finditer(line):
                w = m.group(1)
                if w in ("Variable", "Variables", "Hypothesis", "Hypotheses") and depth > 0:
                    continue
                bad.append("%s:%d: %s" % (os.path.relpath(p, VERIF), ln, w))
    for p in [os.path.join(COQ, "_CoqProject")]:
        if os.path.exists(p):
            for ln, line in enumerate(open(p), 1):
                if re.search(r"type-in-type|impredicative-set|-vos|-vok|bypass", line):
                    bad.append("_CoqProject:%d: %s" % (ln, line.strip()))
    return bad


def coq_project_files():
    files = []
    for line in open(os.path.join(COQ, "_CoqProject")):
        line = line.strip()
        if line.endswith(".v"):
            files.append(line)
    return files


def coq_makefile():
    mk = os.path.join(COQ, "Makefile")
    cp = os.path.join(COQ, "_CoqProject")
    if not os.path.exists(mk) or os.path.getmtime(mk) < os.path.getmtime(cp):
        rc, out = sh(["coq_makefile", "-f", "_CoqProject", "-o", "Makefile"], cwd=COQ)
        if rc != 0:
            raise RuntimeError("coq_makefile failed: " + out)


def coq_make(targets=None, timeout=1500):
    """Full .vo build (never -vos/-vok) of the given targets (default: everything)."""
    with Lock("coq"):
        coq_makefile()
        cmd = ["make", "-j%d" % NPROC] + (targets or [])
        rc, out = sh(cmd, cwd=COQ, timeout=timeout)
    return rc == 0, out, " ".join(cmd) + "  (in coq/, Makefile from coq_makefile -f _CoqProject)"


def coq_properties(pid):
    """Stage A: audit, build the property file with all dependencies, then re-run coqc on the
    property file alone to capture every Print Assumptions. Returns a dict."""
    t0 = time.time()
    res = {"ok": False, "theorems": [], "audit": [], "log": "", "cmd": ""}
    res["audit"] = coq_audit()
    vfile = "theories/Properties/%s.v" % pid
    src = strip_comments(open(os.path.join(COQ, vfile)).read())
    names = re.findall(r"^\s*(?:Theorem|Lemma|Corollary|Example)\s+([A-Za-z0-9_']+)", src, re.M)
    ok, out, cmd = coq_make([vfile + "o"])
    res["cmd"] = cmd
    res["log"] = out[-6000:]
    if not ok:
        res["failed_theorem"] = guess_failed(out, os.path.join(COQ, vfile))
        res["wall_s"] = time.time() - t0
        res["theorems"] = [{"name": n, "checked": False} for n in names]
        return res
    with Lock("coq"):
        rc, pa = sh(["coqc", "-R", "theories", "Verif", vfile], cwd=COQ, timeout=1200)
    res["cmd"] += " ; coqc -R theories Verif " + vfile
    if rc != 0:
        res["log"] = pa[-6000:]
        res["theorems"] = [{"name": n, "checked": False} for n in names]
        res["wall_s"] = time.time() - t0
        return res
    # parse Print Assumptions blocks: either "Closed under the global context" or "Axioms:\n name : type"
    blocks = re.split(r"(?=Closed under the global context|Axioms:)", pa)
    assum = []
    for b in blocks:
        if b.startswith("Closed under the global context"):
            assum.append([])
        elif b.startswith("Axioms:"):
            ax = re.findall(r"^([A-Za-z0-9_.']+)\s*:", b[len("Axioms:"):], re.M)
            assum.append(ax)
    printed = re.findall(r"Print Assumptions\s+([A-Za-z0-9_']+)", src)
    amap = {}
    for i, n in enumerate(printed):
        if i < len(assum):
            amap[n] = assum[i]
    res["theorems"] = [{"name": n, "checked": True, "assumptions": amap.get(n, None)} for n in names]
    res["missing_print_assumptions"] = [n for n in names if n not in amap and not n.endswith("_nonvacuous")
                                        and not n.startswith("ex_")]
    res["ok"] = not res["audit"]
    if os.environ.get("VERIF_TIER_ACTIVE") == "thorough":
        # independent re-check of the compiled property file and everything it depends on, with the axiom summary
        with Lock("coq"):
            rc, ck = sh(["coqchk", "-silent", "-o", "-R", "theories", "Verif", "Verif.Properties.%s" % pid], cwd=COQ, timeout=3600)
        summary = ck[ck.find("CONTEXT SUMMARY"):] if "CONTEXT SUMMARY" in ck else ck[-1500:]
        m = re.search(r"\* Axioms:\s*(.*?)\n\s*\n", summary, re.S)
        res["coqchk"] = {"ok": rc == 0, "cmd": "coqchk -silent -o -R theories Verif Verif.Properties.%s" % pid,
                         "axioms": (m.group(1).strip() if m else "?"), "summary": " ".join(summary.split())[:600]}
        res["cmd"] += " ; " + res["coqchk"]["cmd"]
        if rc != 0:
            res["ok"] = False
            res["log"] = ck[-4000:]
    res["wall_s"] = time.time() - t0
    return res


def guess_failed(out, vpath):
    m = re.search(r'File "([^"]+)", line (\d+)', out)
    if not m:
        return None
    f, ln = m.group(1), int(m.group(2))
    try:
        p = f if os.path.isabs(f) else os.path.join(COQ, f.lstrip("./"))
        lines = open(p).read().split("\n")
        for i in range(min(ln, len(lines)) - 1, -1, -1):
            mm = re.match(r"\s*(Theorem|Lemma|Corollary|Example|Definition|Fixpoint)\s+([A-Za-z0-9_']+)", lines[i])
            if mm:
                return "%s (%s:%d)" % (mm.group(2), os.path.relpath(p, VERIF), ln)
    except OSError:
        pass
    return "%s:%d" % (f, ln)


def ocaml_build(name, extra_ml=()):
    """Extract coq/extract/Extract<Name>.v (ExtrOcamlBasic only) and link ocaml/<name>/driver.ml."""
    d = os.path.join(BUILD, "ocaml", name)
    os.makedirs(d, exist_ok=True)
    os.makedirs(BIN, exist_ok=True)
    ext = os.path.join(COQ, "extract", "Extract%s.v" % name.upper())
    if not os.path.exists(ext):
        ext = os.path.join(COQ, "extract", "Extract%s.v" % name.capitalize())
    srcs = [ext, os.path.join(VERIF, "ocaml", "common", "sx.ml"), os.path.join(VERIF, "ocaml", "common", "num.ml"),
            os.path.join(VERIF, "ocaml", name, "driver.ml")] + [os.path.join(VERIF, "ocaml", name, x) for x in extra_ml]
    out = os.path.join(BIN, name + "_model")
    with Lock("ocaml-" + name):
        # the extraction depends on every compiled model file: hash the .vo closure coarsely via .v sources
        stamp = file_hash(srcs + walk(os.path.join(COQ, "theories"), (".v",)))
        sp = os.path.join(d, ".stamp")
        if os.path.exists(out) and os.path.exists(sp) and open(sp).read() == stamp:
            return True, "up to date", out
        for s in srcs:
            shutil.copy(s, d)
        base = os.path.basename(ext)
        with Lock("coq"):
            rc, log = sh(["coqc", "-R", os.path.join(COQ, "theories"), "Verif", base], cwd=d, timeout=1200)
        if rc != 0:
            return False, log, out
        mls = ["sx.ml", "num.ml", "model.mli", "model.ml"] + list(extra_ml) + ["driver.ml"]
        rc, log2 = sh(["ocamlfind", "ocamlopt", "-O3", "-w", "-a"] + mls + ["-o", out], cwd=d, timeout=1200)
        if rc != 0:
            return False, log + log2, out
        open(sp, "w").write(stamp)
    return True, log, out


def run_lines(binary, lines, timeout=1800, env=None, args=(), prefix=None):
    """Feed one case per line, get one result per line (only lines starting with `prefix` when given)."""
    inp = "\n".join(lines) + "\n"
    try:
        p = subprocess.run([binary] + list(args), input=inp, stdout=subprocess.PIPE, stderr=subprocess.PIPE,
                           timeout=timeout, text=True, errors="replace", env=env)
    except subprocess.TimeoutExpired:
        try:
            os.makedirs(os.path.join(BUILD, "crash"), exist_ok=True)
            tag = hashlib.sha1(inp.encode()).hexdigest()[:10]
            with open(os.path.join(BUILD, "crash", "%s-%s.timeout.stdin" % (os.path.basename(binary), tag)), "w") as f:
                f.write(inp)
        except OSError:
            pass
        return None, "timeout"
    out = p.stdout.split("\n")
    if out and out[-1] == "":
        out.pop()
    if prefix is not None:
        out = [l[len(prefix):] for l in out if l.startswith(prefix)]
    if p.returncode != 0 or len(out) != len(lines):
        try:
            os.makedirs(os.path.join(BUILD, "crash"), exist_ok=True)
            tag = hashlib.sha1(inp.encode()).hexdigest()[:10]
            with open(os.path.join(BUILD, "crash", "%s-%s.stderr" % (os.path.basename(binary), tag)), "w") as f:
                f.write(p.stderr)
            with open(os.path.join(BUILD, "crash", "%s-%s.stdin" % (os.path.basename(binary), tag)), "w") as f:
                f.write(inp)
        except OSError:
            pass
        return out, "rc=%d lines=%d/%d stderr=%s" % (p.returncode, len(out), len(lines), p.stderr[-2000:])
    return out, None


def run_lines_parallel(binary, lines, args=(), prefix=None, workers=12, timeout=3000):
    """run_lines over several processes (the whole-server harness is single-threaded per scenario)."""
    from concurrent.futures import ThreadPoolExecutor
    n = max(1, min(workers, len(lines) // 32))
    # short-lived processes: a process that gets stuck (see below) then costs one short timeout, not a long one
    size = min(64, (len(lines) + n - 1) // n)
    chunks = [lines[i:i + size] for i in range(0, len(lines), size)]
    def one(c):
        # the whole-server harness runs under testing/synctest; the go1.25.0 runtime occasionally spins or aborts
        # inside its bubble bookkeeping (seen in runtime.getOrSetBubbleSpecial): a chunk that times out or dies is
        # retried, the result of a scenario does not depend on the process it runs in
        r = (None, "not run")
        for attempt in range(3):
            r = run_lines(binary, c, timeout=(60 if attempt == 0 else 240) + 2 * len(c), args=args, prefix=prefix)
            if not r[1]:
                return r
        return r

    with ThreadPoolExecutor(max_workers=n) as ex:
        res = list(ex.map(one, chunks))
    out, errs = [], []
    for o, e in res:
        if e:
            errs.append(e)
        out += (o or [])
    if errs or len(out) != len(lines):
        return out, "; ".join(errs) or "lines=%d/%d" % (len(out), len(lines))
    return out, None


# ----------------------------------------------------------------------------- context

class Ctx:
    def __init__(self, pid, tier, seed):
        self.pid, self.tier, self.seed = pid, tier, seed
        self.t0 = time.time()
        self.rng = random.Random(seed * 1000003 + int(pid[1:]))
        self.violations = []
        self.known = []
        self.notes = []
        kf = os.path.join(VERIF, "known_findings.json")
        self.known_findings = json.load(open(kf)) if os.path.exists(kf) else {"findings": [], "fixed": []}
        self.findings = {f["key"]: f for f in self.known_findings.get("findings", []) if f["property"] == pid}

    @property
    def thorough(self):
        return self.tier == "thorough"

    def scale(self, quick, thorough):
        return thorough if self.thorough else quick

    def say(self, *a):
        print("[%s %6.1fs]" % (self.pid, time.time() - self.t0), *a, flush=True)

    # --- outcomes
    def finding_or_violation(self, key, replay, what):
        """A failing input with classifier key `key`: listed -> KNOWN-FINDING, else VIOLATION."""
        if key in self.findings:
            if key not in [k for k, _ in self.known]:
                self.known.append((key, what))
            return False
        self.violation(replay, what=what)
        return True

    def violation(self, replay, what="", nofail=False):
        os.makedirs(os.path.join(VERIF, "replays"), exist_ok=True)
        body = dict(replay)
        body.setdefault("property", self.pid)
        body.setdefault("seed", self.seed)
        body.setdefault("what", what)
        tag = hashlib.sha1(json.dumps(body, sort_keys=True, default=str).encode()).hexdigest()[:10]
        path = os.path.join(VERIF, "replays", "%s-%s.json" % (self.pid, tag))
        with open(path, "w") as f:
            json.dump(body, f, indent=1, default=str)
        self.violations.append((path, what, nofail))

    def finish(self, coverage, assumptions, level="proof"):
        for key, what in self.known:
            print("KNOWN-FINDING: property=%s %s" % (self.pid, what), flush=True)
        seen = set()
        for path, what, nofail in self.violations[:20]:
            if path in seen:
                continue
            seen.add(path)
            print("VIOLATION property=%s replay=%s%s" % (self.pid, path, " no-failing-input-found" if nofail else ""),
                  flush=True)
        ev = {
            "property_id": self.pid, "tier": self.tier, "seed": self.seed, "level": level,
            "coverage": coverage, "assumptions": assumptions,
            "wall_s": round(time.time() - self.t0, 2), "violations": len(seen),
            "known_findings_reproduced": [k for k, _ in self.known],
        }
        os.makedirs(os.path.join(VERIF, "evidence"), exist_ok=True)
        with open(os.path.join(VERIF, "evidence", self.pid + ".json"), "w") as f:
            json.dump(ev, f, indent=1, default=str)
        self.say("done: violations=%d known=%d wall=%.1fs" % (len(seen), len(self.known), time.time() - self.t0))
        return 1 if seen else 0


TRUSTED_COMMON = [
    "Coq 8.16.1 kernel and vm_compute (no native_compute); coqchk re-check in the thorough tier",
    "hand-written Gallina model of the anchored Go code (DESIGN.md section 5); tie = correspondence harness on this run's cases",
    "extraction with ExtrOcamlBasic directives only (Extract Inductive bool/option/unit/list/prod/sumbool/sumor, Extract Inlined Constant andb/orb); OCaml 4.13.1; ocaml/common/{sx,num}.ml and the per-property driver.ml",
    "Go harness injected with -overlay under build tag verif (add-only, go/overlay/), built from /repo's working tree",
]


def proof_coverage(proof):
    ths = proof["theorems"]
    axioms = sorted({a for t in ths for a in (t.get("assumptions") or [])})
    return {
        "obligations": len(ths) + 1,  # +1: the audit (no Admitted/Axiom/... anywhere)
        "discharged": sum(1 for t in ths if t.get("checked")) + (0 if proof["audit"] else 1),
        "checker_cmd": proof["cmd"],
        "theorems": [{"name": t["name"], "checked": t.get("checked", False),
                      "print_assumptions": ("Closed under the global context" if t.get("assumptions") == [] else t.get("assumptions"))}
                     for t in ths],
        "axioms_used": axioms,
        "audit_hits": proof["audit"],
        "coqchk": proof.get("coqchk", "not run in this tier (thorough only)"),
    }


# ----------------------------------------------------------------------------- generic differential stage

def differential(ctx, name, proof, cases, line_of, oracle, norm_impl=None, norm_model=None, nontrivial=None,
                 shrink_candidates=None, more_cases=None, correspondence_name="", model_applies=None, model_line_of=None,
                 impl_spec=None, model_name=None):
    """Stages C, D, E and the verdict logic shared by the package-level checks.
    cases: list of case objects; line_of(case) -> protocol line; oracle(case, impl_out) -> None | (key, msg).
    Returns a dict with counts for the evidence."""
    okm, logm, model = ocaml_build(model_name or name)
    impl_args, impl_prefix = (), None
    if impl_spec:
        # impl_spec = (harness name, is test binary, extra args, output line prefix)
        okg, logg, impl = go_build(impl_spec[0], test=impl_spec[1])
        impl_args, impl_prefix = impl_spec[2], impl_spec[3]
    else:
        okg, logg, impl = go_build(name)
    ctx.say("builds: model=%s harness=%s" % (okm, okg))
    _run_lines = run_lines

    def run_impl(ls):
        if impl_spec and len(ls) > 64:
            return run_lines_parallel(impl, ls, args=impl_args, prefix=impl_prefix)
        return _run_lines(impl, ls, args=impl_args, prefix=impl_prefix)
    lines = [line_of(c) for c in cases]
    corr_broken = None
    impl_out = model_out = None
    if okg:
        impl_out, err = run_impl(lines)
        if err:
            corr_broken, impl_out = "harness run failed: " + err, None
    else:
        corr_broken = "harness does not build against the current tree:\n" + logg[-1500:]
    if okm:
        model_out, err = run_lines(model, [model_line_of(c) for c in cases] if model_line_of else lines)
        if err:
            corr_broken, model_out = (corr_broken or "") + " model run failed: " + err, None
    else:
        corr_broken = (corr_broken or "") + " model does not build:\n" + logm[-1500:]

    def run1(c):
        o, err = run_impl([line_of(c)])
        return None if err else o[0]

    def shrink(c, key):
        if not shrink_candidates:
            return c
        cur, changed, budget = c, True, 400
        while changed and budget > 0:
            changed = False
            for cand in shrink_candidates(cur):
                budget -= 1
                if budget <= 0:
                    break
                o = run1(cand)
                if o is None:
                    continue
                r = oracle(cand, o)
                if r is not None and r[0] == key:
                    cur, changed = cand, True
                    break
        return cur

    oracle_fail = {}
    if impl_out is not None:
        for c, o in zip(cases, impl_out):
            r = oracle(c, o)
            if r:
                oracle_fail.setdefault(r[0], []).append((c, o, r[1]))
    mism = []
    if impl_out is not None and model_out is not None:
        for c, a, b in zip(cases, impl_out, model_out):
            if model_applies is not None and not model_applies(c):
                continue
            a2 = norm_impl(c, a) if norm_impl else a
            b2 = norm_model(c, b) if norm_model else b
            if a2 != b2:
                mism.append((c, a, b))
    ctx.say("cases=%d oracle-fail-classes=%s mismatches=%d" % (len(cases), {k: len(v) for k, v in oracle_fail.items()}, len(mism)))
    found_input = False
    for key, lst in sorted(oracle_fail.items()):
        c, o, msg = min(lst, key=lambda x: len(line_of(x[0])))
        if key not in ctx.findings:
            c = shrink(c, key)
        o = run1(c) or o
        found_input = True
        ctx.finding_or_violation(key, {"kind": "property-fails", "classifier_key": key, "case": line_of(c),
                                       "observed": o, "message": msg, "count_in_run": len(lst)},
                                 "%s: %s; input %s" % (key, msg, line_of(c)[:300]))
    new_violation = any(True for _ in ctx.violations)
    if (mism or corr_broken or not proof["ok"]) and not new_violation:
        if okg and more_cases:
            extra = more_cases()
            eo, err = run_impl([line_of(c) for c in extra])
            if not err:
                for c, o in zip(extra, eo):
                    r = oracle(c, o)
                    if r and r[0] not in ctx.findings:
                        c = shrink(c, r[0])
                        ctx.finding_or_violation(r[0], {"kind": "property-fails", "classifier_key": r[0], "case": line_of(c),
                                                        "observed": run1(c), "message": r[1]},
                                                 "%s: %s; input %s" % (r[0], r[1], line_of(c)[:300]))
                        new_violation = True
                        break
        if not new_violation:
            if not proof["ok"]:
                ctx.violation({"kind": "proof-broken", "theorem": proof.get("failed_theorem"), "audit": proof["audit"],
                               "log": proof["log"][-3000:]}, what="proof obligation no longer checks", nofail=True)
            if corr_broken:
                ctx.violation({"kind": "correspondence-broken", "correspondence": correspondence_name, "detail": corr_broken},
                              what="correspondence could not be established", nofail=True)
            elif mism:
                c, a, b = min(mism, key=lambda x: len(line_of(x[0])))
                ctx.violation({"kind": "correspondence-broken", "correspondence": correspondence_name,
                               "case": line_of(c), "implementation": a, "model": b, "count_in_run": len(mism)},
                              what="model and implementation disagree", nofail=True)
    distinct = len({l for c, l in zip(cases, lines) if (nontrivial(c) if nontrivial else True)})
    return {"evaluations": len(cases), "distinct_nontrivial": distinct,
            "samples": [l[:400] for l in (lines[:2] + lines[len(lines) // 2:len(lines) // 2 + 2])],
            "traces_validated_against_impl": 0 if impl_out is None or model_out is None else len(cases) - (0 if model_applies is None else sum(1 for c in cases if not model_applies(c))),
            "disagreements_checked": len(mism)}


# ----------------------------------------------------------------------------- translator (stage B)

def translator_build():
    tr = os.path.join(VERIF, "go", "translator")
    out = os.path.join(BIN, "translator")
    os.makedirs(BIN, exist_ok=True)
    with Lock("translator"):
        srcs = walk(tr, (".go", ".mod", ".sum"))
        stamp = file_hash(srcs)
        sp = os.path.join(BUILD, ".translator.stamp")
        if os.path.exists(out) and os.path.exists(sp) and open(sp).read() == stamp:
            return True, ""
        rc, log = sh(["go", "build", "-o", out, "."], cwd=tr, env=goenv(), timeout=900)
        if rc == 0:
            open(sp, "w").write(stamp)
        return rc == 0, log


def generate(what, vname):
    """Regenerate coq/theories/Generated/<vname>.v from /repo's current source.
    Returns (ok, changed, log). The file is only rewritten when its content changes."""
    ok, log = translator_build()
    if not ok:
        return False, False, "translator build failed: " + log
    rc, out = sh([os.path.join(BIN, "translator"), what, REPO], timeout=600)
    if rc != 0:
        return False, False, "translator %s failed: %s" % (what, out[-2000:])
    path = os.path.join(COQ, "theories", "Generated", vname + ".v")
    with Lock("coq"):
        old = open(path).read() if os.path.exists(path) else None
        if old != out:
            with open(path, "w") as f:
                f.write(out)
            return True, True, ""
    return True, False, ""
